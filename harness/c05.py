"""C05 — CTC prefix search reports true prefix mass, never more, never NaN.

Correspondence: the real `ctc_prefix_search_advance` is observed call by call (its inputs
and outputs, per batch element) both when `CTCPrefixSearch.forward` drives it and when the
harness drives it directly.  The Lean model replays every call for every batch element
from the *probabilities the implementation itself used* (torch's own softmax / fused
values, as exact rationals) and the *selection `topk` returned* (`topk`'s tie order is not
specified; the model checks that the selection is a legitimate top-K), and must reproduce
every tensor of every call and the final result.  The Lean specification (alignment
enumeration, forward variables, map-based prefix-beam recursion pruned to the prefixes the
implementation kept) is the oracle of the property predicate.
"""
import contextlib
import itertools
import math
import os
import sys
from fractions import Fraction

import c05_gen
import c05_oracle as orc
import c05_size
from common.framework import PropertyCheck, frac_str

NEG = float("-inf")
# runs of hundreds of frames: the exact masses are rationals with thousands of digits
if hasattr(sys, "set_int_max_str_digits"):
    sys.set_int_max_str_digits(0)
PINNED_MODEL = bool(os.environ.get("VERIF_C05_PINNED_MODEL"))  # compare against the model of the unrepaired code
# correspondence tolerance (implementation vs. the exact model replaying the implementation's own frame
# probabilities): rounding of the search itself over a whole run; 32 eps for the half-precision dtypes
TOL = {"f32": Fraction(1, 50000), "f64": Fraction(1, 10 ** 10), "f16": Fraction(1, 32), "bf16": Fraction(1, 4)}
DTYPES = ("f16", "bf16", "f32", "f64")


def torch_dtype(name):
    import torch
    return {"f16": torch.float16, "bf16": torch.bfloat16, "f32": torch.float32, "f64": torch.float64}[name]


def eff_dtype(case):
    """the coarser of the logits' dtype and — when a language model is fused in — the dtype of the LM's scores:
    the accuracy the numbers of the run can be held to"""
    lm = case.get("lm")
    d = case["dtype"]
    if lm and lm.get("dtype") and Fraction(lm["beta"]) != 0 and orc.EPS[lm["dtype"]] > orc.EPS[d]:
        return lm["dtype"]
    return d


def n_frames(case):
    return len(case["logits"]) if case["kind"] == "module" else len(case["frames"])


def tol_of(case):
    """correspondence tolerance of a tolerance-stream run: `TOL` for the runs of up to 8 frames it was
    calibrated on; a run of T frames rounds about 6 times per frame along every alignment (two products, the sums
    of the recursion, the softmax / fusion before it), so long runs get (6 T + 8) eps where that is more"""
    d = eff_dtype(case)
    T = n_frames(case)
    return TOL[d] if T <= 8 else max(TOL[d], (6 * T + 8) * orc.EPS[d])


def judge_of(case):
    """How a case is judged (explicit in the case, so that a replay is judged the same way; absent = in full):
    `model`   — the Lean array model replays every call (correspondence); False for the LARGEST size classes,
                which are judged by the Lean specification and the property's own predicates only;
    `elements`— the batch elements that go through Lean (None = all; large batches: a sample - every element is
                still judged by the predicates that need no oracle: distinct prefixes, order, batched = alone, ...);
    `dp`      — true mass of every reported prefix by the forward algorithm (off for long tolerance runs, where
                exact arithmetic on 300-frame products of 53-bit numbers costs minutes)."""
    j = case.get("judge") or {}
    return {"model": j.get("model", True), "elements": j.get("elements"), "dp": j.get("dp", True)}


ENUM_PREFIXES = 400     # per-prefix tables list ALL prefixes up to the frame index while there are at most this many


def count_prefixes(V, t):
    n, x = 0, 1
    for _ in range(t + 1):
        n += x
        x *= V
        if n > 10 ** 9:
            break
    return n


def prefix_closure(ps):
    out = set()
    for p in ps:
        p = tuple(p)
        for j in range(len(p) + 1):
            out.add(p[:j])
    return out


def reported_prefixes(res):
    """the prefixes a result reports with a number (not -inf / NaN), each once"""
    seen, out = set(), []
    for p, x in zip(res["prefixes"], res["probs"]):
        if x in ("-inf", "nan", "inf") or tuple(p) in seen:
            continue
        seen.add(tuple(p))
        out.append(list(p))
    return out


def table_prefixes(V, t, slot_prefixes, closure):
    """The prefixes whose extension scores the specification may ask for at frame `t`.  Small vocabularies /
    short runs: every prefix of length <= t (as the alignment enumeration needs).  Otherwise: the prefixes the
    beam holds when the frame is read (the recursion reads `ext q v` only for a beam entry `q`) and the prefixes
    of the reported prefixes (the forward algorithm of the true mass reads `ext (p[:j]) p[j]`)."""
    if count_prefixes(V, t) <= ENUM_PREFIXES:
        return [p for L in range(t + 1) for p in itertools.product(range(V), repeat=L)]
    need = {tuple(p) for p in slot_prefixes} | {q for q in closure if len(q) <= t}
    return sorted(need, key=lambda q: (len(q), q))


def mix_slack(case, beta, factor):
    """valid-mixture fusion `(1-beta)*tok + beta*lm*(1 - blank)`: `1 - blank` evaluated in floating point carries an
    ABSOLUTE error of up to a few eps (blank's own rounding, the subtraction), however small its true value (the
    total probability of the non-blank labels) is; its share of the fused score is beta * lm * (4 eps)."""
    return 4 * orc.EPS[eff_dtype(case)] * beta * factor


def floor_of(case):
    """Absolute slack of every tolerance comparison: below its smallest normal number a floating dtype has no
    relative precision (gradual underflow, flush-to-zero inside exp): 64 such units (c05_oracle.FLOOR).
    Exact streams: none."""
    if case["stream"] == "exact":
        return 0
    return 64 * orc.FLOOR[eff_dtype(case)]


# ----------------------------------------------------------------------------- helpers
def enc(x):
    """float -> JSON-safe (exact: python floats round-trip through repr)."""
    x = float(x)
    if x == NEG:
        return "-inf"
    return x


def dec(x):
    return NEG if x == "-inf" else float(x)


def F(s):
    """'n/d' | 'nan' | 'inf' | '-inf' -> Fraction or the word."""
    if s in ("nan", "inf", "-inf"):
        return s
    return Fraction(s)


def close(a, b, tol, floor=0):
    """a, b: Fraction or word. tol = 0 -> exact."""
    if isinstance(a, str) or isinstance(b, str):
        return a == b
    if a == b:
        return True
    return abs(a - b) <= tol * max(abs(a), abs(b)) + floor


def leq(a, b, tol, floor=0):
    """a <= b up to tolerance for Fractions / '-inf'."""
    if a == "-inf":
        return True
    if b == "-inf":
        return False
    if isinstance(a, str) or isinstance(b, str):
        return False
    return a <= b + tol * max(abs(a), abs(b)) + floor


def prefix_hash(p):
    h = 1
    for v in p:
        h = (h * 5 + int(v) + 1) % 1000003
    return h


def lm_logits_of_hash(h, V, seed, zeros):
    """Deterministic pseudo-random LM scores (multiples of 1/4 in [-2, 2]; optionally some -inf)."""
    out = []
    for v in range(V):
        z = (h * 2654435761 + (v + 3) * 40503 + seed * 97) % 1000003
        val = ((z >> 3) % 17) / 4.0 - 2.0
        if zeros and (z % 5 == 0) and v != h % V:
            val = NEG
        out.append(val)
    return out


HASH_MOD = 1000003
STATE_LOG = None    # while a list: the harness LMs append the `prev["h"]` they are called with


def hash_from(h0, p):
    h = h0
    for v in p:
        h = (h * 5 + int(v) + 1) % HASH_MOD
    return h


def lm_row(spec, V, prefix, h0=1):
    """The harness LM as a plain function of (initial context, prefix): the scores the search must use
    for the extensions of `prefix`, whatever slot holds it and however it got there."""
    kind = spec.get("kind", "hash")
    if kind == "hist":
        h0 = 1                      # stateless: reads the history only
    row = lm_logits_of_hash(hash_from(h0, prefix), V, spec["seed"], spec["zeros"])
    if kind == "fusion":
        h2 = 1 if spec.get("second", "shapes") == "hist" else h0
        row2 = lm_logits_of_hash(hash_from(h2, prefix), V, spec["seed"] + 1, False)
        inner = float(Fraction(spec.get("inner", "1/2")))
        row = [a + inner * b for a, b in zip(row, row2)]
    return row


def make_lm(V, spec, dtype):
    """Stateful MixableSequentialLanguageModels whose scores are a function of the prefix only if the
    search re-indexes (`extract_by_src`) and mixes (`mix_by_mask`) the state dictionaries correctly and
    hands over the right history / lengths.

    kinds: `hash`   — state = rolling hash of the consumed tokens, one long per column;
           `shapes` — the same hash kept in three tensors of different shapes / dtypes / batch axes
                      ((M,), (2, M, 3), (M, 1) float64); token v is scored from tensor (v + seed) % 3;
           `hist`   — no state: the hash is recomputed from `hist[:idx]` (reads every stored token);
           `fusion` — the library's MixableShallowFusionLanguageModel of a `hash` and a `shapes`/`hist` LM."""
    import torch
    from pydrobert.torch.modules import MixableSequentialLanguageModel, MixableShallowFusionLanguageModel

    def step_hash(h, hist, idx):
        M = h.size(0)
        idx = idx.expand(M) if idx.dim() == 0 else idx
        if hist.size(0) == 0:
            tok = torch.zeros(M, dtype=torch.long)
        else:
            tok = (hist.flatten(1) if hist.dim() > 2 else hist).gather(0, (idx - 1).clamp(min=0).unsqueeze(0)).squeeze(0)
        return torch.where(idx == 0, h, (h * 5 + tok + 1) % HASH_MOD)

    def rows_of(hs, seed, zeros):
        if len(hs) * V > 4096:
            # large flattened batches (size classes): the same numbers as `lm_logits_of_hash`, vectorised (int64
            # arithmetic: h < 1000003, so h * 2654435761 < 2^52).  The oracle side (`lm_row`) keeps the scalar
            # function, so the two evaluations check each other on every fused size-class case.
            h = torch.tensor([int(x) for x in hs], dtype=torch.long).unsqueeze(1)
            v = torch.arange(V, dtype=torch.long).unsqueeze(0)
            z = (h * 2654435761 + (v + 3) * 40503 + seed * 97) % 1000003
            val = ((z >> 3) % 17).to(torch.float64) / 4.0 - 2.0
            if zeros:
                val = torch.where((z % 5 == 0) & (v != h % V), torch.full_like(val, NEG), val)
            return val.tolist()
        return [lm_logits_of_hash(int(x), V, seed, zeros) for x in hs]

    class HashLM(MixableSequentialLanguageModel):
        def __init__(self, seed, zeros):
            super().__init__(V)
            self.seed_, self.zeros_ = seed, zeros

        def update_input(self, prev, hist):
            if "h" in prev:
                return prev
            return {"h": torch.ones(hist.size(1), dtype=torch.long)}

        def calc_idx_log_probs(self, hist, prev, idx):
            if STATE_LOG is not None:
                STATE_LOG.append(prev["h"].detach().clone())
            h2 = step_hash(prev["h"], hist, idx)
            M = h2.size(0)
            return torch.tensor(rows_of(h2.tolist(), self.seed_, self.zeros_), dtype=dtype).view(M, V), {"h": h2}

        def extract_by_src(self, prev, src):
            return {"h": prev["h"].gather(0, src)}

        def mix_by_mask(self, prev_true, prev_false, mask):
            return {"h": torch.where(mask, prev_true["h"], prev_false["h"])}

    class ShapesLM(MixableSequentialLanguageModel):
        log_states = True

        def __init__(self, seed, zeros):
            super().__init__(V)
            self.seed_, self.zeros_ = seed, zeros

        @staticmethod
        def state_of(h):
            return {"h": h.clone(), "layers": h.view(1, -1, 1).expand(2, -1, 3).contiguous(),
                    "col": h.to(torch.float64).unsqueeze(1)}

        def update_input(self, prev, hist):
            if "h" in prev:
                return prev
            return self.state_of(torch.ones(hist.size(1), dtype=torch.long))

        def calc_idx_log_probs(self, hist, prev, idx):
            if STATE_LOG is not None and self.log_states:
                STATE_LOG.append(prev["h"].detach().clone())
            a = step_hash(prev["h"], hist, idx)
            L = prev["layers"]
            lay = torch.stack([torch.stack([step_hash(L[i, :, j], hist, idx) for j in range(3)], 1)
                               for i in range(2)], 0)
            c = step_hash(prev["col"][:, 0].to(torch.long), hist, idx)
            M = a.size(0)
            srcs = [a.tolist(), lay[(self.seed_ >> 1) % 2, :, self.seed_ % 3].tolist(), c.tolist()]
            rows = []
            for m in range(M):
                per = [lm_logits_of_hash(int(srcs[i][m]), V, self.seed_, self.zeros_) for i in range(3)]
                rows.append([per[(v + self.seed_) % 3][v] for v in range(V)])
            return torch.tensor(rows, dtype=dtype).view(M, V), \
                {"h": a, "layers": lay, "col": c.to(torch.float64).unsqueeze(1)}

        def extract_by_src(self, prev, src):
            return {"h": prev["h"].gather(0, src), "layers": prev["layers"].index_select(1, src),
                    "col": prev["col"].index_select(0, src)}

        def mix_by_mask(self, prev_true, prev_false, mask):
            return {"h": torch.where(mask, prev_true["h"], prev_false["h"]),
                    "layers": torch.where(mask.view(1, -1, 1), prev_true["layers"], prev_false["layers"]),
                    "col": torch.where(mask.unsqueeze(1), prev_true["col"], prev_false["col"])}

    class HistLM(MixableSequentialLanguageModel):
        def __init__(self, seed, zeros):
            super().__init__(V)
            self.seed_, self.zeros_ = seed, zeros

        def update_input(self, prev, hist):
            return prev

        def calc_idx_log_probs(self, hist, prev, idx):
            hist = hist.flatten(1) if hist.dim() > 2 else hist
            M = hist.size(1)
            idx = idx.expand(M) if idx.dim() == 0 else idx
            hs = [hash_from(1, hist[: int(idx[m]), m].tolist()) for m in range(M)]
            return torch.tensor(rows_of(hs, self.seed_, self.zeros_), dtype=dtype).view(M, V), {}

        def extract_by_src(self, prev, src):
            return {}

        def mix_by_mask(self, prev_true, prev_false, mask):
            return {}

    kind = spec.get("kind", "hash")
    seed, zeros = spec["seed"], spec["zeros"]
    if kind == "hash":
        return HashLM(seed, zeros)
    if kind == "shapes":
        return ShapesLM(seed, zeros)
    if kind == "hist":
        return HistLM(seed, zeros)
    second = HistLM(seed + 1, False) if spec.get("second", "shapes") == "hist" else ShapesLM(seed + 1, False)
    second.log_states = False       # inside a fusion only the first LM's states are logged
    return MixableShallowFusionLanguageModel(HashLM(seed, zeros), second, float(Fraction(spec.get("inner", "1/2"))))


def lm_initial_state(spec, h0s):
    """The `prev` dictionary a caller hands to CTCPrefixSearch for the initial contexts `h0s`."""
    import torch
    kind = spec.get("kind", "hash")
    h = torch.tensor(h0s, dtype=torch.long)

    def shapes(h):
        return {"h": h.clone(), "layers": h.view(1, -1, 1).expand(2, -1, 3).contiguous(),
                "col": h.to(torch.float64).unsqueeze(1)}

    if kind == "hash":
        return {"h": h}
    if kind == "shapes":
        return shapes(h)
    if kind == "hist":
        return {}
    d = {"first.h": h.clone()}
    if spec.get("second", "shapes") != "hist":
        d.update(("second." + k, v) for k, v in shapes(h).items())
    return d


def lay_out(t, layout, junk):
    """The same values in a different memory layout (non-contiguous views; `junk` fills the cells of the
    underlying buffer that do not belong to the tensor)."""
    import torch
    if layout in (None, "contig"):
        return t
    if t.dim() == 1:
        if layout == "expand":      # one stored value seen N times (stride 0); the caller made all values equal
            assert t.numel() > 0 and bool((t == t[0]).all())
            return t[:1].clone().expand(t.size(0))
        if layout == "col":         # a column of a 2-D buffer
            buf = torch.full((t.size(0), 3), junk, dtype=t.dtype)
            buf[:, 1] = t
            return buf[:, 1]
        buf = torch.full((2 * t.size(0) + 1,), junk, dtype=t.dtype)
        buf[1::2] = t
        return buf[1::2]
    if t.dim() == 2:                # (N, K') index tensors of the step function: through the 3-D layouts
        return lay_out(t.unsqueeze(0), layout, junk)[0]
    T, N, W = t.shape
    if layout == "perm":
        return t.permute(1, 0, 2).contiguous().permute(1, 0, 2)
    if layout == "perm2":
        return t.permute(2, 0, 1).contiguous().permute(1, 2, 0)
    if layout == "wide":
        buf = torch.full((T + 2, N + 1, W + 2), junk, dtype=t.dtype)
        buf[1:T + 1, :N, 1:W + 1] = t
        return buf[1:T + 1, :N, 1:W + 1]
    if layout == "step2":
        buf = torch.full((T, N, 2 * W), junk, dtype=t.dtype)
        buf[..., ::2] = t
        return buf[..., ::2]
    raise ValueError(layout)


@contextlib.contextmanager
def poisoned_empty(poison):
    """Fill integer tensors made by torch.empty / Tensor.new_empty with `poison`: cells the code
    leaves uninitialised must never influence a specified output."""
    import torch
    o_empty, o_new = torch.empty, torch.Tensor.new_empty

    def empty(*a, **k):
        t = o_empty(*a, **k)
        if not t.is_floating_point() and t.dtype != torch.bool:
            t.fill_(poison)
        return t

    def new_empty(self, *a, **k):
        t = o_new(self, *a, **k)
        if not t.is_floating_point() and t.dtype != torch.bool:
            t.fill_(poison)
        return t

    torch.empty, torch.Tensor.new_empty = empty, new_empty
    try:
        yield
    finally:
        torch.empty, torch.Tensor.new_empty = o_empty, o_new


def poison_of(case):
    """What the cells left uninitialised by torch.empty / new_empty hold in the observed run: a token beyond the
    vocabulary (V + 3) or a NEGATIVE number (audit, round e).  Real uninitialised int64 memory can be anything;
    the lower halves of the code's `.clamp(0, V - 1)` on `y_prev_last` / `to_match` exist only for such values
    (a negative index makes `gather` / `one_hot` raise), and the Lean model - tokens are `Nat` - has no
    counterpart for them, so only the implementation run can exercise them.  A deterministic function of the
    case (no draw from the generator's stream; replays without the field behave alike)."""
    if "poison" in case:
        return int(case["poison"])
    import json
    import zlib
    V = case["V"]
    h = zlib.crc32(json.dumps(case, sort_keys=True, default=str).encode())
    return [V + 3, -1, V + 3, -(V + 2)][h % 4]


def same_tensor(a, b):
    """bit-for-bit the same values (NaN equal to NaN), same shape and dtype"""
    import torch
    if a.shape != b.shape or a.dtype != b.dtype:
        return False
    if a.is_floating_point():
        return bool(torch.equal(torch.nan_to_num(a, nan=12345.0), torch.nan_to_num(b, nan=12345.0))) and \
            bool(torch.equal(a.isnan(), b.isnan()))
    return bool(torch.equal(a, b))


class Recorder:
    """Observes every call of `ctc_prefix_search_advance`.  The arguments are copied BEFORE the call (what the
    model replays is what the function was given), compared with the caller's tensors afterwards (the function
    must not write into its arguments) and the call is made a second time on the copies (a function: same
    arguments, same answer — no state hidden anywhere between two calls)."""
    NAMES = ("ext", "nonext", "blank", "nb_prev", "b_prev", "y_prev", "y_prev_last", "y_prev_lens", "prev_is_prefix")

    def __init__(self, orig, twice=True):
        self.orig = orig
        self.calls = []
        self.twice = twice
        self.mutated = []       # (call index, argument name)
        self.unrepeatable = []  # (call index, output position)

    def __call__(self, probs_t, width, probs_prev, y_prev, y_prev_last, y_prev_lens, prev_is_prefix):
        import torch
        d = lambda x: x.detach().clone()
        args = (probs_t[0], probs_t[1], probs_t[2], probs_prev[0], probs_prev[1], y_prev, y_prev_last, y_prev_lens,
                prev_is_prefix)
        before = [d(x) for x in args]
        out = self.orig(probs_t, width, probs_prev, y_prev, y_prev_last, y_prev_lens, prev_is_prefix)
        i = len(self.calls)
        for name, x, x0 in zip(self.NAMES, args, before):
            if not same_tensor(x.detach(), x0):
                self.mutated.append((i, name))
        flat = (out[0], out[1], out[2], out[3][0], out[3][1], out[4], out[5], out[6])
        outs = tuple(d(x) for x in flat)
        if self.twice:
            c = [d(x) for x in before]
            with torch.no_grad():
                o2 = self.orig((c[0], c[1], c[2]), width, (c[3], c[4]), c[5], c[6], c[7], c[8])
            flat2 = (o2[0], o2[1], o2[2], o2[3][0], o2[3][1], o2[4], o2[5], o2[6])
            for j, (a, b) in enumerate(zip(outs, flat2)):
                if not same_tensor(a, b.detach()):
                    self.unrepeatable.append((i, j))
        self.calls.append({
            "ext": before[0], "tok": before[1], "blank": before[2], "width": width,
            "in": (before[5], before[6], before[7], before[3], before[4], before[8]),
            "out": outs,
        })
        return out


def state_obs(y, last, lens, nb, b, isp, n):
    """Canonical observation of one batch element's slots (only the valid token region)."""
    K = nb.size(1)
    ln = [int(x) for x in lens[n].expand(K).tolist()] if lens.size(1) != K else [int(x) for x in lens[n].tolist()]
    yk = y if y.size(2) == K else y.expand(-1, -1, K)
    return {
        "prefixes": [[int(t) for t in yk[:ln[k], n, k].tolist()] for k in range(K)],
        "last": [int(x) for x in last[n].tolist()],
        "lens": ln,
        "nb": [frac_str(x) for x in nb[n].tolist()],
        "b": [frac_str(x) for x in b[n].tolist()],
        "is_prefix": ["".join("1" if x else "0" for x in row) for row in isp[n].tolist()],
    }


def tot_of(st, k):
    a, b = F(st["nb"][k]), F(st["b"][k])
    if "nan" in (a, b):
        return "nan"
    if "-inf" in (a, b):
        return "nan" if "inf" in (a, b) else "-inf"
    if "inf" in (a, b):
        return "inf"
    return a + b


def trace_events(el):
    """History classes (see c05_gen) read off the implementation's own trace of one element."""
    ev = set()
    below = set()
    for s in el["steps"][: el["len"]]:
        i, o = s["in"], s["out"]
        bin_ = {tuple(i["prefixes"][k]) for k in range(len(i["nb"])) if not isinstance(tot_of(i, k), str)}
        bout = {tuple(o["prefixes"][k]) for k in range(len(o["nb"])) if not isinstance(tot_of(o, k), str)}
        for p in below & bin_:
            if any(p + (v,) in bin_ for v in range(len(s["tok"]))):
                ev.add("remerge")
        entered = set()
        for q in bout:
            longer = [r for r in bout if len(r) > len(q) and r[:len(q)] == q]
            if q not in bin_ and longer:
                ev.add("refill")
                entered.add(q)
            for r in longer:
                if any(r[:L] not in bout for L in range(len(q) + 1, len(r))):
                    ev.add("gap")
        for q in bin_ - bout:
            if any(len(r) > len(q) and r[:len(q)] == q for r in bout):
                ev.add("evict")
        below = {q for q in below if q in bout} | entered
        # a caller-given state may start below a gap
        if not below and s is el["steps"][0]:
            for q in bin_:
                for r in bin_:
                    if len(r) > len(q) + 1 and r[:len(q)] == q and any(r[:L] not in bin_ for L in range(len(q) + 1, len(r))):
                        ev.add("gap")
    return ev


class C05(PropertyCheck):
    pid = "C05"
    rule = ("streams: (a) exhaustive {0,-inf}-logit grid V=1 T<=3 x widths; (b) random module runs on {0,-inf} "
            "logits (softmax = 1/2^k, exact) with batch 1..3, mixed lens incl. 0; (c) ctc_prefix_search_advance driven "
            "directly with probabilities k/16 (zeros included) and per-prefix extension probabilities; (d) tolerance: "
            "random logits f32/f64 with stateful harness LMs (state = rolling hash in one tensor / in three tensors of "
            "different shapes, dtypes and batch axes / none: history re-read / the library's MixableShallowFusion of "
            "two of them), initial LM state given by the caller or not, beta in {0,1/4,1/2,1} (0 and 1 also as int), "
            "plain and valid-mixture fusion; (e) malformed inputs; (f) HISTORIES: module runs (tolerance) and directly "
            "driven runs (exact grid k/16, k/64) on peaky near-one-hot frames with repeated tokens, narrow beams 2..5, "
            "T 4..7, steered by rejection sampling on a plain-float prefix-beam recursion (generator aid only) towards "
            "runs in which a prefix is pruned below a longer one that stays, re-enters as a fresh extension (refill) "
            "and its extension is merged into the longer prefix (remerge); the directly driven runs may change the "
            "width at every call; (g) the step function started from an arbitrary well-formed state given by the "
            "caller (beams with missing links, slots without a prefix carrying junk, junk last token of the empty "
            "prefix, token buffer taller than the prefixes), 1-3 calls with changing widths. Module options varied "
            "everywhere: memory layout of logits (contiguous / permuted storage / slice of a wider buffer / strided), "
            "lens None or a tensor of dtype int64 / int32 / int16 / int8 / uint8 (narrow dtypes on half of the cases whose "
            "lengths fit, most of the size-class cases) stored contiguously / strided / as a column of a 2-D buffer / as "
            "an EXPANDED view (stride 0; 8 % of the batches get equal lengths for it), the frames beyond an element's "
            "length hold ordinary scores / PEAKY scores (a token label certain or nearly so, changing from frame to "
            "frame) / NaN, autograd on; the caller-given state of (e) (tokens, last tokens, lengths, prefix matrix) "
            "contiguous or as non-contiguous views (strided / slice of a wider buffer / permuted storage) with junk in "
            "the foreign cells (the step function's index arguments are documented as long tensors: other integer "
            "dtypes are outside the contract, torch's gather / scatter reject them); (h) THE MODULE AS AN OBJECT: half of the module cases of "
            "(b), (d), (f) make the observed call on an object that was constructed with OTHER values of width / beta "
            "(grid 0, 1/10, 1/4, 1/2, 3/4, 1) / valid_mixture / lm (None or another LM), called 0-2 times before (on the "
            "same input, other values, another T and N, or an input that is rejected), whose public attributes were then "
            "reassigned one by one in random order to the case's values (optionally a call after every single "
            "reassignment), train() / eval() toggles, reset_parameters(), optionally a deepcopy of the object: the "
            "observed call goes through the whole check (Lean model + specification with the CURRENT values), every call "
            "on the way and the observed call must equal the same call on a module constructed at that moment with the "
            "object's current values, the same call made twice must give one answer, ctc_prefix_search_advance is called "
            "twice with copies of its arguments (one answer), no call may write into its caller's tensors (logits, lens, "
            "initial LM state, the arguments of the step function); width 1 (beam never widens) over-sampled with a "
            "fused LM; (i) THE CALLER'S SCORES: every module case (exact, tolerance, history) is also evaluated against "
            "the exact probabilities of its logits (rational max-shift + 60-digit decimal exp / ln, no torch: "
            "c05_oracle) through the Lean specification: the probabilities handed to the step function are the softmax "
            "of the logits, every reported mass = the prefix-beam recursion (same survivors) on the exact "
            "probabilities / exact fused scores, never more than the true mass, = true mass when unpruned - at the "
            "accuracy of the INPUT dtype (first-order rounding budget in units of its eps + its underflow unit); "
            "dtypes float16 / bfloat16 / float32 / float64 (exact stream: the dtypes in which the run is float-exact); "
            "a third of the tolerance cases with LARGE-MAGNITUDE / WIDE-RANGE scores, row by row: common offsets up "
            "to 1e3 (f16) .. 1e9 (f64), deviations spread up to the dtype's exponent range (12 / 80 / 80 / 600: the "
            "smallest probabilities approach the smallest normal number), a label ruled out by -inf; a quarter of the "
            "fused tolerance cases with the language model scoring in ANOTHER floating dtype than the logits; dtype of "
            "the result (long, long, the logits' floating dtype). Streams (a)-(i): T 0..7, V 1..3, width 1..50, N 1..3. "
            "(j) SIZE CLASSES (c05_size; 8 cases per quick run, ~70 per thorough run): one or two of the sizes the code "
            "computes with are LARGE, for every entry point (module on random scores / on {0,-inf} scores / with a fused "
            "LM, step function driven directly on the grid k/64 incl. per-prefix extension scores and widths changing "
            "between calls, step function from a caller-given state of K' slots): widths 32, 63, 64, 65, 100, 128, 200 x "
            "vocabularies 3, 8, 17, 33, 64, 65, 128, 257 with K'*K'*V (the merge's one-hot) in the bands (1e3,1e4], "
            "(1e4,65536], (65536,1e5], (1e5,3e6]; T = 64..300 with small V / width; N = 16..128 with ragged lengths; "
            "T*N*(V+1) and T*N*K' beyond 1e4 / 1e5; N*K' beyond 1e3 / 1e4 and N*K'*(V+1) beyond 1e4 / 1e5; wide-beam "
            "scores are drawn merge-rich (a few hot labels per frame; best of four draws by a plain-float recursion - "
            "generator aid only).  Judged like every other case (array model call by call, recursion with the "
            "implementation's survivors, exact oracle of the caller's scores) with the true mass by the forward algorithm "
            "instead of the enumeration; the very largest (K' = 200, K'*K'*V > 3.2e5, tolerance runs of > 64 frames, "
            "quick-tier volume cases) by the specification without the array model; batches of >= 16: a sample of 1-6 "
            "elements through Lean, all elements through the predicates that need no oracle (case field `judge`). "
            "non-trivial: width != number of live candidates at some frame; distinct by the case JSON. "
            "(CTCPrefixSearch / ctc_prefix_search_advance have no blank-index or batch_first option: blank is index V, "
            "logits are (T, N, V+1).)")
    assumptions = [
        "float rounding is not modelled: exact streams use float-exact domains (compared as rationals), the tolerance "
        "stream hands torch's own softmax / fused values to the model and compares within 2e-5 (f32) / 1e-10 (f64) / "
        "32 eps (f16, bf16) plus 64 underflow units of the dtype (absolute)",
        "the caller's scores: exp / ln of python's decimal module (60 digits) are trusted as the exact softmax / fusion "
        "of the case's logits; the Lean specification is evaluated on these numbers (rounded to 36 significant "
        "digits); the allowed distance of a floating-point run from them is a first-order rounding budget: per frame "
        "(range of the row + V + 9) eps for a softmax output, + 20 eps for a fused score, + (1 + that) eps / (total "
        "probability of the non-blank labels) for the valid mixture's (1 - blank), + 4 eps for the recursion; "
        "observed errors on the unmodified tree stay below 0.27 of the budget",
        "topk: any maximal-K selection in non-increasing order; the implementation's selection is given to the model, "
        "which checks that it is a legitimate top-K of the candidate totals",
        "the language model is an arbitrary function of (initial context, prefix) (harness LMs: stateful rolling hash "
        "in several state layouts); its state handling contract (extract_by_src / mix_by_mask) is exercised — the state "
        "every slot is given at every call is compared with the Lean model's routing — the LM itself is not verified",
        "cells left uninitialised by torch.empty are poisoned with two different values (inside / isolated run); the "
        "value of the observed run is beyond the vocabulary (V + 3) or NEGATIVE (-1, -(V + 2)) - the Lean model keeps "
        "tokens as naturals and 0 in such cells, the lower clamps of the code are exercised on the implementation only; "
        "caller-given states carry negative junk beyond the valid lengths and as last token of empty / missing prefixes "
        "(handed to the model as 0, which is what the code's clamp makes of them)",
        "fusion formula: the LM factor (softmax / exp(beta*log_softmax) of the harness LM's scores) is torch's; the Lean "
        "model's lmExt / fuse combines it with the token / blank probabilities and the mixture weight the module carries "
        "AT THE TIME OF THE CALL, and must reproduce ext_probs_t of every real slot (2e-5 / 1e-10)",
        "object life cycle: the harness LMs keep no state inside the LM object (all state travels in the `prev` "
        "dictionaries), so a module constructed at any moment with the live object's values and the same LM object is a "
        "legitimate reference for the live object's call; results are compared bit for bit (same torch, same input)",
        "true mass by enumeration of all alignments only while (V+1)^T <= 4200 (all streams except the rare longest "
        "history runs with V=3 and the size classes); the prefix-beam recursion oracle is evaluated for every case",
        "size classes: true mass of every reported prefix by the forward algorithm over the positions of the prefix "
        "(driver glue `massPos`), cross-checked in the driver against the specification's recursion with prefix-closed "
        "survivors (= true mass: theorem C05_closed_survivors) whenever frames x prefixes <= 1500 and against the "
        "enumeration of all alignments on every small case; not computed for tolerance runs of more than 32 frames "
        "(there 'never more than the true mass' rests on reported = recursion, checked, and C05_sub, proved)",
        "size classes: the specification's recursion is evaluated with hash maps (`specStepFast`, calls the "
        "specification's stepFn for every value), cross-checked against the literal definitions (beamStep, isTopKB) on "
        "every case with V <= 3, width <= 50, T <= 8; the model's isTopK through isTopKFast (proved equal: C05_topk_fast)",
        "tolerance streams: the survivors must be a top-K of the specification's candidate totals up to the tolerance "
        "(a dropped candidate may exceed a kept one by rounding only; not evaluated for runs of more than 32 frames); "
        "correspondence tolerance of runs of more than 8 frames: max(the fixed tolerance, (6 T + 8) eps)",
        "large batches: the elements that do not go through Lean are judged by distinctness, order, no NaN, batched = "
        "alone (the latter only while N*T <= 2000 and N*T*width^2 <= 1e6), the step contract of every call (same bound)",
    ]
    exhaustive = {"quick": False, "thorough": False}
    quick_budget_s = 150
    thorough_budget_s = 1100

    def __init__(self):
        self._cache = {}

    # ------------------------------------------------------------------ generators
    def cases(self, rng, tier):
        big = tier != "quick"
        # (a) exhaustive small grid
        rows1 = [[0.0, 0.0], [0.0, NEG], [NEG, 0.0]]
        for T in range(0, 4 if not big else 5):
            for pat in itertools.product(rows1, repeat=T):
                for width in ((1, 2, 3, 5, 50) if (big or T < 3) else (1, 2, 4, 50)):
                    yield {"kind": "module", "stream": "exact", "V": 1, "width": width, "dtype": "f32",
                           "logits": [[[enc(x) for x in row]] for row in pat], "lens": None, "lm": None}
        # malformed
        for c in self.malformed():
            yield c
        n_b, n_c, n_d = (150, 150, 150) if tier == "quick" else (3000, 3000, 3000) if tier == "thorough" else (6000, 6000, 5000)
        n_h = 70 if tier == "quick" else 1200 if tier == "thorough" else 2500
        gens = [self.gen_module_exact(rng, n_b), self.gen_advance(rng, n_c), self.gen_tol(rng, n_d),
                self.gen_history_tol(rng, n_h), self.gen_history_advance(rng, n_h), self.gen_state_advance(rng, n_h),
                self.gen_size(rng, tier)]
        # interleave
        alive = list(gens)
        while alive:
            for g in list(alive):
                try:
                    c = next(g)
                    if c is not None:       # (the size-class stream yields a case only every few rounds)
                        yield c
                except StopIteration:
                    alive.remove(g)

    def gen_size(self, rng, tier):
        """SIZE CLASSES (c05_size): a few cases per run with a wide beam / a large vocabulary / hundreds of frames /
        a large batch, for every entry point; spread over the run (one every 80 cases of the other streams)"""
        for c in c05_size.roster(self, rng, tier):
            yield c
            for _ in range(6 if tier == "quick" else 2):
                yield None

    # ---- options of the entry points that are orthogonal to the search itself
    LAYOUTS = [None, None, None, "perm", "perm2", "wide", "step2"]

    def vary_module(self, rng, case):
        """memory layout of logits / lens, lens dtype, autograd on, beta given as int, empty prev dict"""
        case["layout"] = rng.choice(self.LAYOUTS)
        if case["lens"] is not None:
            self.vary_lens(rng, case)
        if rng.random() < 0.15:
            case["grad"] = True
        lm = case.get("lm")
        if lm is not None:
            if lm["beta"] in ("0", "1") and rng.random() < 0.5:
                case["beta_int"] = True
            if lm.get("init") is None and rng.random() < 0.2:
                case["prev_empty"] = True
        for k in [k for k, v in case.items() if v is None and k in ("layout",)]:
            del case[k]
        if rng.random() < 0.5:
            case["life"] = self.gen_life(rng, case)
        if case["lens"] is not None:
            self.vary_padding(rng, case)
        return case

    # ---- the lengths as the CALLER hands them over: any integer dtype torch can take min / max of and compare
    # (`lens` is documented as "a tensor of shape (N,)", no dtype), any memory layout; the frames beyond an
    # element's length hold whatever the caller's padding left there
    LENS_DTYPES = {"i64": (-2 ** 63, 2 ** 63 - 1), "i32": (-2 ** 31, 2 ** 31 - 1), "i16": (-2 ** 15, 2 ** 15 - 1),
                   "i8": (-128, 127), "u8": (0, 255)}

    def vary_lens(self, rng, case):
        lens = case["lens"]
        N = len(lens)
        if N > 1 and len(set(lens)) > 1 and case.get("gen") != "size" and rng.random() < 0.08:
            # all elements of the same length (below T as a rule): the only lengths an EXPANDED view can hold
            case["lens"] = lens = [rng.choice([max(lens), rng.choice(lens)])] * N
        fits = [d for d, (lo, hi) in self.LENS_DTYPES.items() if max(lens + [0]) <= hi]
        narrow = [d for d in fits if d in ("u8", "i8", "i16")]
        r = rng.random()
        # (the size classes are a handful of cases per run: there the narrow dtypes get most of the draws)
        if narrow and r < (0.7 if case.get("gen") == "size" else 0.5):
            case["lens_dtype"] = rng.choice(narrow + [d for d in narrow if d == "u8"])
        else:
            case["lens_dtype"] = rng.choice(["i64", "i64", "i32"])
        r = rng.random()
        if len(set(lens)) == 1 and N > 1 and r < 0.5:
            case["lens_layout"] = "expand"
        elif r < 0.2:
            case["lens_layout"] = "step2"
        elif r < 0.3:
            case["lens_layout"] = "col"

    def vary_padding(self, rng, case):
        """what the frames beyond an element's length hold (they are not valid, whatever is there must not reach
        the result): the generator's ordinary scores / PEAKY scores (one label certain or nearly so, a token label
        as a rule, changing from frame to frame: a search that consumes such a frame reports other prefixes, longer
        ones, other masses) / NaN (applied in run_impl; not for objects with a life: the probes of a life reuse the
        tensor with other lengths)."""
        T, V, lens = len(case["logits"]), case["V"], case["lens"]
        if not any(l < T for l in lens):
            return
        r = rng.random()
        if r < 0.12 and not case.get("life"):
            case["pad_nan"] = True
            return
        if r > 0.6:
            return
        case["pad"] = "peaky"
        logits = [[list(row) for row in fr] for fr in case["logits"]]
        for n, l in enumerate(lens):
            j = rng.randrange(V)
            for t in range(l, T):
                j = rng.randrange(V + 1) if rng.random() < 0.25 else (j + 1 + rng.randrange(max(1, V - 1))) % V
                if case["stream"] == "exact":
                    logits[t][n] = [enc(0.0 if i == j else NEG) for i in range(V + 1)]
                else:
                    logits[t][n] = [enc(c05_gen.round_dtype(10.0 if i == j else rng.uniform(-2.0, 2.0), case["dtype"]))
                                    for i in range(V + 1)]
        case["logits"] = logits

    # ---- the module as an OBJECT: constructed with other values, used, public attributes reassigned
    BETAS = ["0", "1/10", "1/4", "1/2", "3/4", "1"]

    def gen_life(self, rng, case):
        """A life of the module object before the observed call (see `live_module`): which attributes had
        another value at construction, how often and on what the object was called before, in which order the
        attributes are reassigned to the case's values, train() / eval() toggles, reset_parameters(), deepcopy."""
        lm = case.get("lm")
        cur_beta = lm["beta"] if lm else "1/5"
        ctor = {}
        if rng.random() < 0.6:
            ctor["beta"] = rng.choice([b for b in self.BETAS if b != cur_beta])
        if rng.random() < 0.4:
            ctor["width"] = rng.choice([w for w in (1, 2, 3, 4, 6, 9, 20) if w != case["width"]])
        if rng.random() < 0.4:
            ctor["valid"] = not bool(lm and lm["valid"])
        if rng.random() < 0.4:
            if lm is not None and rng.random() < 0.4:
                ctor["lm"] = None
            else:
                other = {"seed": rng.randrange(1000), "zeros": rng.random() < 0.3,
                         "kind": rng.choice(["hash", "shapes", "hist", "fusion"])}
                if other["kind"] == "fusion":
                    other["second"], other["inner"] = rng.choice(["shapes", "hist"]), "1/2"
                ctor["lm"] = other
        if not ctor:
            ctor["beta"] = rng.choice([b for b in self.BETAS if b != cur_beta])
        order = list(ctor)
        rng.shuffle(order)
        life = {"ctor": ctor, "order": order, "warm": rng.choice([0, 1, 1, 2]),
                "warm_input": rng.choice(["same", "same", "values", "shape", "raises"])}
        if len(order) > 1 and rng.random() < 0.5:
            life["between"] = True
        if rng.random() < 0.3:
            life["mode"] = rng.choice([["eval"], ["train"], ["eval", "train"], ["train", "eval"]])
        if rng.random() < 0.1:
            life["reset"] = True
        if rng.random() < 0.12:
            life["via"] = "deepcopy"
        return life

    def gen_lm(self, rng, N):
        kind = rng.choice(["hash", "hash", "shapes", "hist", "fusion"])
        lm = {"beta": rng.choice(["0", "1/4", "1/2", "1", "3/4", "1/10"]), "valid": rng.random() < 0.5,
              "seed": rng.randrange(1000), "zeros": rng.random() < 0.3, "kind": kind}
        if kind == "fusion":
            lm["second"] = rng.choice(["shapes", "hist"])
            lm["inner"] = rng.choice(["1/2", "1"])
        if kind != "hist" and rng.random() < 0.4:
            lm["init"] = [rng.randrange(2, 5000) for _ in range(N)]
        return lm

    # ---- histories: beams that lose a prefix below a longer one and get it back
    WANT = {"remerge", "refill"}

    def gen_history_tol(self, rng, n):
        """module runs on peaky (near one-hot) frames with narrow beams, T up to 7, repeated tokens; each
        case is drawn until the plain-float recursion goes through a refill / remerge history."""
        import struct
        for _ in range(n):
            V = rng.choice([2, 2, 3])
            T = rng.choice([4, 5, 5, 6, 6, 7] if V == 2 else [4, 5, 5, 6])
            width = rng.choice([2, 3, 3, 4, 4, 5])
            dtype = rng.choice(["f32", "f64"])

            def make():
                rows = c05_gen.peaky_rows(rng, V, T)
                shift = rng.choice([0.0, 0.0, 3.0, -5.0])
                lg = [[(math.log(x) if x > 0 else NEG) + shift for x in r] for r in rows]
                if dtype == "f32":
                    lg = [[x if x == NEG else struct.unpack("f", struct.pack("f", x))[0] for x in r] for r in lg]
                ev = c05_gen.history_events([c05_gen.softmax(r) for r in lg], [width] * T, V)
                return lg, ev

            lg, ev = c05_gen.steer(rng, make, self.WANT, 400)
            N = rng.choice([1, 1, 1, 2])
            logits = [[[enc(x) for x in lg[t]]] for t in range(T)]
            lens = None
            if N == 2:      # a second, ordinary element (shorter or equal), so that frames get frozen
                for t in range(T):
                    logits[t].append([self.rand_logit(rng, dtype) for _ in range(V + 1)])
                lens = [T, rng.randint(0, T)]
                if rng.random() < 0.5:
                    logits = [fr[::-1] for fr in logits]
                    lens = lens[::-1]
            lm = None
            if rng.random() < 0.25 and T <= 5 and V == 2:
                lm = self.gen_lm(rng, N)
                lm["beta"] = rng.choice(["1/4", "1/2"])
            case = {"kind": "module", "stream": "tol", "V": V, "width": width, "dtype": dtype, "logits": logits,
                    "N": N, "lens": lens, "lm": lm, "gen": "history"}
            yield self.vary_module(rng, case)

    def gen_history_advance(self, rng, n):
        """the step function driven directly on the exact grid k/denom with peaky rows (zeros included),
        narrow beams, T up to 7, optionally a different width at every call; drawn until the plain-float
        recursion goes through a refill / remerge history."""
        for _ in range(n):
            V = rng.choice([2, 2, 3])
            T = rng.choice([4, 5, 5, 6, 6, 7] if V == 2 else [4, 5, 5, 6])
            dtype = rng.choice(["f32", "f64"])
            den = 16 if (dtype == "f32" or rng.random() < 0.5) else 64
            if dtype == "f32" and T > 6:
                dtype = "f64"       # 16^-7 needs more than 24 bits
            width = rng.choice([2, 3, 3, 4, 4, 5])
            widths = None
            if rng.random() < 0.3:
                widths = [max(1, width + rng.choice([-2, -1, 0, 0, 1, 2])) for _ in range(T)]
            ext_seed = rng.choice([None, None, rng.randrange(1 << 16)]) if (V == 2 and T <= 6) else None

            def make():
                rows = c05_gen.peaky_numerators(rng, V, T, den)
                ext = None
                if ext_seed is not None:
                    ext = lambda t, pref, v: self.adv_ext_row(ext_seed, t, pref, V, rows[t][:V], den)[v] / den
                ev = c05_gen.history_events([[x / den for x in r] for r in rows], widths or [width] * T, V, ext)
                return rows, ev

            rows, ev = c05_gen.steer(rng, make, self.WANT, 400)
            case = {"kind": "advance", "stream": "exact", "V": V, "width": width, "dtype": dtype, "denom": den,
                    "frames": [{"tok": r[:V], "blank": r[V]} for r in rows], "ext_seed": ext_seed, "lm": None,
                    "lens": None, "gen": "history"}
            if widths:
                case["widths"] = widths
            yield case

    def gen_state_advance(self, rng, n, size=None):
        """the step function started from an arbitrary well-formed state handed over by the caller: distinct
        blank-free prefixes in the real slots (chains with missing links on purpose), a correct prefix matrix
        on the real slots, slots without a prefix (-inf mass) carrying junk tokens / lengths / matrix rows,
        token buffer taller than the longest prefix; then 1-3 calls, the width may change between calls.
        `size` (size classes, c05_size): {V, Kp, S, width} - a state of Kp slots over a vocabulary of V, most of
        them real (many chains), probabilities on the grid k/64."""
        for _ in range(n):
            V = rng.choice([1, 2, 2, 3])
            S = rng.choice([0, 1, 2, 3, 3, 4])
            Kp = rng.choice([1, 2, 3, 4, 5, 6])
            dtype = rng.choice(["f32", "f64"])
            den = 16
            chains, strays = rng.choice([1, 1, 2]), rng.choice([0, 1, 2])
            if size:
                V, S, Kp, den = size["V"], size["S"], size["Kp"], 64
                chains, strays = Kp, Kp // 3
            # real prefixes: subsets of the prefixes of one or two long strings (chains with gaps) + strays
            pool = set()
            for _c in range(chains):
                L = rng.randint(0, S)
                r = tuple(rng.randrange(V) for _ in range(L))
                for j in range(L + 1):
                    if rng.random() < 0.6:
                        pool.add(r[:j])
            for _c in range(strays):
                pool.add(tuple(rng.randrange(V) for _ in range(rng.randint(0, S))))
            pool = sorted(pool)
            rng.shuffle(pool)
            n_real = min(len(pool), rng.randint(1, Kp) if not size else rng.randint(Kp - Kp // 4, Kp))
            real = pool[:n_real]
            slots = real + [None] * (Kp - n_real)
            rng.shuffle(slots)
            y, last, lens, nb, b = [], [], [], [], []
            # junk: anything an int64 cell may hold, negative numbers included (the documented contract: only
            # y_prev[:y_prev_lens] is valid, y_prev_last is arbitrary for a prefix of length 0).  Cells INSIDE the
            # counted length of a slot without a prefix stay non-negative: they are copied to output slots whose
            # (unspecified) tokens the correspondence still compares with the model, which keeps naturals.
            wild = lambda: rng.choice([-(V + 3), -2, -1, -1] + list(range(V + 2)))
            for p in slots:
                junk = [rng.randrange(V + 2) for _ in range(S)]
                if p is None:
                    ln = rng.randint(0, S)
                    lens.append(ln)
                    y.append(junk[:ln] + [wild() for _ in range(S - ln)])
                    last.append(wild())
                    nb.append("-inf")
                    b.append(rng.choice(["-inf", 0]))
                else:
                    lens.append(len(p))
                    y.append(list(p) + [wild() for _ in range(S - len(p))])
                    last.append(p[-1] if p else wild())
                    tot = rng.choice([0, 1, 2, 3, 4, 6, 8])
                    x = 0 if not p else rng.randint(0, tot)
                    nb.append(x)
                    b.append(tot - x)
            isp = []
            for k, p in enumerate(slots):
                row = []
                for k2, q in enumerate(slots):
                    if p is None or q is None:
                        row.append(rng.random() < 0.3)
                    else:
                        row.append(q[:len(p)] == p)
                isp.append(row)
            T = rng.choice([1, 1, 2, 3])
            frames = []
            for t in range(T):
                if size:
                    parts = self.grid_row(rng, V, den)
                    frames.append({"tok": parts[:V], "blank": parts[V]})
                    continue
                parts = [rng.choice([0, 0, 1, 2, 3, 4, 5, 6, 8]) for _ in range(V + 1)]
                while sum(parts) > 16:
                    parts[rng.randrange(V + 1)] //= 2
                if sum(parts) == 0:
                    parts[rng.randrange(V + 1)] = 4
                frames.append({"tok": parts[:V], "blank": parts[V]})
            width = rng.choice([1, 2, 3, 4, 5, 6, 8, 12, 30])
            widths = [width] * T if rng.random() < 0.6 else \
                [rng.choice([1, 2, 3, 4, 5, 6, 8, 12]) for _ in range(T)]
            if size:
                widths = [size["width"]] * T if rng.random() < 0.6 else \
                    [max(1, size["width"] + rng.choice([-40, -1, 0, 1, 7])) for _ in range(T)]
                dtype = "f64"
            case = {"kind": "advance", "stream": "exact", "V": V, "width": widths[-1], "widths": widths, "dtype": dtype,
                    "denom": den, "frames": frames, "ext_seed": rng.choice([None, rng.randrange(1 << 16)]), "lm": None,
                    "lens": None, "gen": "state",
                    "init": {"tm1": S, "y": y, "last": last, "lens": lens, "nb": nb, "b": b, "is_prefix": isp}}
            if size:
                case["gen"] = "size"
            # the caller's index / length / relation tensors (documented: long / bool tensors of the given shapes;
            # no layout promised): non-contiguous views with junk in the cells of the buffer that are not theirs
            lay = rng.choice([None, None, "step2", "wide", "perm2"])
            if lay:
                case["state_layout"] = lay
            yield case

    @staticmethod
    def grid_row(rng, V, den):
        """one frame on the exact grid k/den for ANY vocabulary size: numerators of V tokens and the blank, zeros
        allowed (most labels of a large vocabulary get nothing), total <= den, not all zero"""
        live = rng.sample(range(V + 1), min(V + 1, rng.choice([1, 2, 3, 5, 8, 12, 20])))
        parts = [0] * (V + 1)
        for i in live:
            parts[i] = rng.choice([1, 1, 2, 3, 4, 6, 8, 12])
        while sum(parts) > den:
            i = rng.choice(live)
            parts[i] //= 2
        if sum(parts) == 0:
            parts[rng.choice(live)] = max(1, den // 4)
        return parts

    def pick_width(self, rng, V, T):
        r = rng.random()
        if r < 0.55:
            return rng.choice([1, 2, 3, 4, 5, 6])
        if r < 0.85:
            return rng.choice([7, 8, 10, 12, 16, 20])
        return rng.choice([30, 50])

    def gen_lens(self, rng, N, T):
        r = rng.random()
        if r < 0.3:
            return None
        lens = [rng.randint(0, T) for _ in range(N)]
        if r < 0.45 and N > 1:
            lens[rng.randrange(N)] = 0
        return lens

    def gen_module_exact(self, rng, n):
        for _ in range(n):
            V = rng.choice([1, 2, 3])
            T = rng.choice([0, 1, 2, 3, 3, 4, 4, 5])
            N = rng.choice([1, 1, 2, 3])
            logits = []
            for t in range(T):
                fr = []
                for _n in range(N):
                    nz = rng.choice([c for c in (1, 2, 4) if c <= V + 1])
                    zs = set(rng.sample(range(V + 1), nz))
                    fr.append([enc(0.0 if i in zs else NEG) for i in range(V + 1)])
                logits.append(fr)
            # every floating dtype in which the run is float-exact: all masses are multiples of 2^-bits with
            # bits = the largest sum over the frames of log2(#labels with probability > 0) of an element
            bits = max([sum(int(math.log2(sum(1 for x in fr[n] if x == 0.0))) for fr in logits) for n in range(N)] + [0])
            dtype = rng.choice(["f32", "f32", "f64", "f64", "f16", "bf16"])
            if (dtype == "f16" and bits > 10) or (dtype == "bf16" and bits > 7):
                dtype = "f32"
            yield self.vary_module(rng, {"kind": "module", "stream": "exact", "V": V, "width": self.pick_width(rng, V, T),
                                         "dtype": dtype, "logits": logits, "N": N,
                                         "lens": self.gen_lens(rng, N, T), "lm": None})

    def gen_advance(self, rng, n):
        for _ in range(n):
            V = rng.choice([1, 2, 3])
            T = rng.choice([1, 2, 3, 3, 4, 4, 5])
            frames = []
            for t in range(T):
                # numerators over 16, summing to <= 16, zeros allowed
                parts = [rng.choice([0, 0, 1, 2, 3, 4, 5, 6, 8]) for _ in range(V + 1)]
                while sum(parts) > 16:
                    parts[rng.randrange(V + 1)] //= 2
                if sum(parts) == 0:
                    parts[rng.randrange(V + 1)] = 4
                frames.append({"tok": parts[:V], "blank": parts[V]})
            yield {"kind": "advance", "stream": "exact", "V": V, "width": self.pick_width(rng, V, T),
                   "dtype": rng.choice(["f32", "f64"]), "frames": frames,
                   "ext_seed": rng.choice([None, rng.randrange(1 << 16)]), "lm": None, "lens": None}

    def gen_tol(self, rng, n):
        for _ in range(n):
            V = rng.choice([1, 2, 2, 3])
            T = rng.choice([0, 1, 2, 3, 4, 4, 5])
            N = rng.choice([1, 2, 3])
            dtype = rng.choice(["f32", "f32", "f32", "f64", "f64", "f64", "f16", "bf16"])
            logits = [[[self.rand_logit(rng, dtype) for _ in range(V + 1)] for _ in range(N)] for _ in range(T)]
            wide = set()
            if T and rng.random() < 0.35:
                # large-magnitude / wide-range scores (per element, row by row): see c05_gen.widen_rows
                for n in range(N):
                    if N > 1 and rng.random() < 0.3:
                        continue
                    rows, cls = c05_gen.widen_rows(rng, [logits[t][n] for t in range(T)], dtype)
                    for t in range(T):
                        logits[t][n] = rows[t]
                    wide |= cls
            lm = None
            if rng.random() < 0.6 and T <= 4:
                lm = self.gen_lm(rng, N)
            width = self.pick_width(rng, V, T)
            if lm is not None and rng.random() < 0.2:
                width = 1       # boundary: the beam never widens (prev_width == width from the first frame on)
            if lm is not None and rng.random() < 0.25:
                # the language model scores in another floating dtype than the logits (type promotion inside)
                lm["dtype"] = rng.choice([d for d in DTYPES if d != dtype])
            case = {"kind": "module", "stream": "tol", "V": V, "width": width,
                    "dtype": dtype, "logits": [[[enc(x) for x in row] for row in fr] for fr in logits], "N": N,
                    "lens": self.gen_lens(rng, N, T), "lm": lm}
            if wide:
                case["wide"] = sorted(wide)
            yield self.vary_module(rng, case)

    @staticmethod
    def rand_logit(rng, dtype):
        x = rng.gauss(0.0, 1.5)
        if rng.random() < 0.05:
            x = -30.0 * rng.random()
        return c05_gen.round_dtype(x, dtype)

    def malformed(self):
        base = {"kind": "module", "stream": "exact", "V": 1, "dtype": "f32", "lens": None, "lm": None,
                "logits": [[[0.0, 0.0]]]}
        yield dict(base, width=0, expect_error="ValueError")
        yield dict(base, width=2, lens=[1, 1], expect_error="RuntimeError")
        yield dict(base, width=2, malform="dim2", expect_error="RuntimeError")
        yield dict(base, width=2, malform="lens2d", expect_error="RuntimeError")
        yield dict(base, width=2, lm={"beta": "1/2", "valid": False, "seed": 1, "zeros": False, "vocab": 3},
                   expect_error="RuntimeError")
        yield {"kind": "advance", "stream": "exact", "V": 1, "width": 0, "dtype": "f32", "lens": None, "lm": None,
               "frames": [{"tok": [8], "blank": 8}], "ext_seed": None, "expect_error": "RuntimeError"}
        yield {"kind": "advance", "stream": "exact", "V": 1, "width": 2, "dtype": "f32", "lens": None, "lm": None,
               "frames": [{"tok": [8], "blank": 8}], "ext_seed": None, "malform": "blank_shape",
               "expect_error": "RuntimeError"}

    # ------------------------------------------------------------------ implementation
    @staticmethod
    def adv_ext_row(seed, t, prefix, V, tok, den=16):
        """extension probabilities of a prefix in directly driven runs (numerators over `den`)."""
        if seed is None:
            return list(tok)
        h = prefix_hash(prefix)
        out = []
        for v in range(V):
            z = (h * 48271 + seed * 131 + t * 7919 + v * 613) % 65537
            out.append([0, 1, 2, 3, 4, 6, 8, 12][z % 8] * (den // 16))
        return out

    def run_impl(self, case):
        import torch
        from pydrobert.torch import _decoding, functional
        from pydrobert.torch.modules import CTCPrefixSearch
        self._cache = {}
        dtype = torch_dtype(case["dtype"])
        V, width = case["V"], case["width"]
        rec = Recorder(_decoding.ctc_prefix_search_advance)
        lm_spec = case.get("lm")
        lm = None
        if lm_spec is not None:
            lm = make_lm(lm_spec.get("vocab", V), lm_spec, torch_dtype(lm_spec.get("dtype") or case["dtype"]))
        grad = bool(case.get("grad"))
        ctx = contextlib.nullcontext if grad else torch.no_grad
        if case["kind"] == "module":
            T = len(case["logits"])
            N = len(case["logits"][0]) if T else case.get("N", 1)
            logits = torch.tensor([[[dec(x) for x in row] for row in fr] for fr in case["logits"]],
                                  dtype=dtype).view(T, N, V + 1)
            if case.get("pad_nan") and case["lens"] is not None:
                for n, l in enumerate(case["lens"]):
                    logits[l:, n] = float("nan")        # beyond the element's length: not valid, never to be read
            logits = lay_out(logits, case.get("layout"), 3.0)
            ldt = {"i32": torch.int32, "i16": torch.int16, "i8": torch.int8, "u8": torch.uint8}.get(
                case.get("lens_dtype"), torch.long)
            lens = None if case["lens"] is None else lay_out(torch.tensor(case["lens"], dtype=ldt),
                                                             case.get("lens_layout"), 1)
            if case.get("malform") == "dim2":
                logits = logits[:, 0]
            if case.get("malform") == "lens2d":
                lens = torch.zeros((N, 1), dtype=torch.long)
            if grad:
                logits.requires_grad_(True)
            beta = Fraction(lm_spec["beta"]) if lm_spec else Fraction(1, 5)
            beta = int(beta) if (case.get("beta_int") and beta.denominator == 1) else float(beta)
            h0s = (lm_spec or {}).get("init")

            def make_extra():
                if h0s is not None:
                    return (lm_initial_state(lm_spec, h0s),)
                if case.get("prev_empty"):
                    return ({},)
                return ()

            # the module object: constructed, used and re-configured as `case["life"]` says; every call on the
            # way is compared with a freshly constructed module carrying the same attribute values
            final = {"width": width, "beta": beta, "valid": bool(lm_spec and lm_spec["valid"]), "lm": lm}
            search, obj = self.live_module(case, final, dtype, logits, lens, make_extra)
            extra = make_extra()
            keep = (logits.detach().clone(), None if lens is None else lens.clone(),
                    [{k: v.clone() for k, v in e.items()} for e in extra])
            saved = _decoding.ctc_prefix_search_advance
            _decoding.ctc_prefix_search_advance = rec
            global STATE_LOG
            STATE_LOG = []
            try:
                with poisoned_empty(poison_of(case)), ctx():
                    y, y_lens, probs = search(logits, lens, *extra)
            finally:
                _decoding.ctc_prefix_search_advance = saved
                state_log, STATE_LOG = STATE_LOG, None
            # the caller's tensors are not written to
            if not same_tensor(logits.detach(), keep[0]):
                obj["mutated"].append("logits")
            if lens is not None and not same_tensor(lens, keep[1]):
                obj["mutated"].append("lens")
            for e, e0 in zip(extra, keep[2]):
                if sorted(e) != sorted(e0) or any(not same_tensor(e[k], e0[k]) for k in e0):
                    obj["mutated"].append("initial LM state")
            obj["mutated"] += [f"{name} (call {i} of ctc_prefix_search_advance)" for i, name in rec.mutated]
            obj["unrepeatable"] = [f"output {j} of call {i} of ctc_prefix_search_advance" for i, j in rec.unrepeatable]
            if y.dim() == 3 and probs.dim() == 2:
                with poisoned_empty(poison_of(case)), torch.no_grad():
                    # the same call once more on the same object, and on a module constructed just now
                    again = search(logits.detach(), lens, *make_extra())
                    fresh = CTCPrefixSearch(final["width"], final["beta"], final["lm"], final["valid"])
                    fresh.train(search.training)
                    anew = fresh(logits.detach(), lens, *make_extra())
                obj["repeat"] = self.result_diff((y, y_lens, probs), again)
                obj["fresh"] = self.result_diff((y, y_lens, probs), anew)
            y, y_lens, probs = y.detach(), y_lens.detach(), probs.detach()
            obj["dtypes"] = [str(y.dtype), str(y_lens.dtype), str(probs.dtype), str(dtype)]
            lens_l = [T] * N if case["lens"] is None else list(case["lens"])
            if y.shape[1:] != (N, width) or y_lens.shape != (N, width) or probs.shape != (N, width):
                return {"shape_error": [list(y.shape), list(y_lens.shape), list(probs.shape)]}
            elements = []
            judged = judge_of(case)["elements"]
            for n in range(N):
                sampled = judged is None or n in judged
                # (elements of a large batch that do not go through Lean: the calls are observed without the
                # extension scores; not at all when that would be millions of cells - such an element is judged by
                # its result: distinct prefixes, order, no NaN, batched = alone)
                cheap = N * T <= 2000 and N * T * width * width <= 1000000
                el = self.element_obs(rec.calls if (sampled or cheap) else [], n, lens_l[n], y, y_lens, probs, V,
                                      light=not sampled)
                # the same element searched alone on its own valid frames (other poison value, plain layout);
                # large batches of long inputs (N * T > 2000 step calls): the sampled elements only
                ex1 = ()
                if h0s is not None:
                    ex1 = (lm_initial_state(lm_spec, h0s[n: n + 1]),)
                if sampled or cheap:
                    with poisoned_empty(0), torch.no_grad():
                        ya, la, pa = search(logits.detach()[: lens_l[n], n: n + 1].contiguous(),
                                            None if case["lens"] is None else torch.tensor([lens_l[n]]), *ex1)
                    el["alone"] = self.result_obs(ya, la, pa, 0)
                # the LM state every slot of this element was given at each call (stateful harness LMs)
                if lm_spec is not None and lm_spec.get("kind", "hash") != "hist" and len(state_log) == len(rec.calls) \
                        and not lm_spec.get("vocab"):
                    el["lm_h0"] = 1 if h0s is None else h0s[n]
                    el["lm_states"] = []
                    for c, hl in zip(rec.calls, state_log):
                        Kp = c["in"][3].size(1)
                        el["lm_states"].append([int(x) for x in hl[n * Kp:(n + 1) * Kp].tolist()])
                elements.append(el)
            # a probability that is not a number in a VALID frame of the step function's input: reported as such
            # (the Lean driver refuses such frames - that would be a machinery error instead of a verdict)
            for n, el in enumerate(elements):
                for t, s in enumerate(el["steps"][: el["len"]]):
                    vals = list(s.get("tok") or []) + [s.get("blank")]
                    if any(v in ("nan", "inf") for v in vals):
                        obs = {"nonfinite": f"n={n}: frame {t} (valid: the element has {el['len']} frames): the scores "
                                            f"handed to the step function are {vals}"}
                        self._cache = {"key": self.key(case), "obs": obs}
                        return obs
            obs = {"elements": elements, "object": obj}
            self.attach_lm_tables(case, obs, rec.calls, lens_l, dtype)
            if not case.get("expect_error") and not case.get("malform"):
                self.attach_oracle(case, obs, lens_l, final["beta"])
        else:
            frames = case["frames"]
            T = len(frames)
            den = case.get("denom", 16)
            widths = case.get("widths") or [width] * T
            init = case.get("init")
            if init is None:
                nb = torch.zeros((1, 1), dtype=dtype)
                b = torch.ones((1, 1), dtype=dtype)
                y = torch.empty((0, 1, 1), dtype=torch.long)
                lens = last = torch.zeros((1, 1), dtype=torch.long)
                isp = torch.ones((1, 1, 1), dtype=torch.bool)
            else:
                xs = lambda v: NEG if v == "-inf" else v / den
                nb = torch.tensor([[xs(v) for v in init["nb"]]], dtype=dtype)
                b = torch.tensor([[xs(v) for v in init["b"]]], dtype=dtype)
                Kp0 = len(init["nb"])
                y = torch.tensor(init["y"], dtype=torch.long).view(Kp0, init["tm1"]).t().contiguous().view(init["tm1"], 1, Kp0)
                lens = torch.tensor([init["lens"]], dtype=torch.long)
                last = torch.tensor([init["last"]], dtype=torch.long)
                isp = torch.tensor([init["is_prefix"]], dtype=torch.bool)
                lay = case.get("state_layout")
                if lay:
                    y, lens, last = lay_out(y, lay, V + 1), lay_out(lens, lay, init["tm1"] + 2), lay_out(last, lay, V + 1)
                    isp = lay_out(isp, lay, True)
            fn = functional.ctc_prefix_search_advance
            rec = Recorder(fn)
            tables, held = [], []
            with poisoned_empty(poison_of(case)), ctx():
                for t, fr in enumerate(frames):
                    Kp = nb.size(1)
                    prefs = [tuple(int(x) for x in y[: int(lens[0, k]), 0, k].tolist()) for k in range(Kp)]
                    ext = torch.tensor([[[x / den for x in self.adv_ext_row(case["ext_seed"], t, p, V, fr["tok"], den)]
                                         for p in prefs]], dtype=dtype)
                    tok = torch.tensor([[x / den for x in fr["tok"]]], dtype=dtype)
                    bl = torch.tensor([fr["blank"] / den], dtype=dtype)
                    if case.get("malform") == "blank_shape":
                        bl = bl.unsqueeze(0)
                    if grad:
                        ext.requires_grad_(True)
                    held.append(prefs)
                    y, last, lens, (nb, b), isp, _src, _non = rec((ext, tok, bl), widths[t], (nb, b), y, last, lens, isp)
            probs = (nb + b).detach()
            el = self.element_obs(rec.calls, 0, T, y.detach(), lens, probs, V)
            el["alone"] = None
            if case["ext_seed"] is not None:
                # the extension scores as a function of the prefix, for the specification: every prefix up to the
                # frame index (small vocabularies), else the prefixes the slots hold + those of the reported ones
                closure = prefix_closure(reported_prefixes(el["result"]))
                for t, fr in enumerate(frames):
                    plist = sorted(set(held[t])) if init is not None else table_prefixes(V, t, held[t], closure)
                    tables.append([[list(p), [frac_str(Fraction(x, den)) for x in
                                               self.adv_ext_row(case["ext_seed"], t, p, V, fr["tok"], den)]]
                                   for p in plist])
            if case["ext_seed"] is not None:
                el["ext_table"] = tables
            obs = {"elements": [el], "object": {
                "calls": len(rec.calls), "dev": [],
                "mutated": [f"{name} (call {i})" for i, name in rec.mutated],
                "unrepeatable": [f"output {j} of call {i}" for i, j in rec.unrepeatable]}}
        self._cache = {"key": self.key(case), "obs": obs}
        return self.public_obs(obs)

    @staticmethod
    def public_obs(obs):
        return obs

    # ---- one module object, several calls, public attributes reassigned in between
    @staticmethod
    def result_diff(a, b):
        """first difference between two results of the module (bit for bit; the tokens of slots that report
        -inf are not specified), None if there is none"""
        ya, la, pa = (x.detach() for x in a)
        yb, lb, pb = (x.detach() for x in b)
        if pa.shape != pb.shape or la.shape != lb.shape or ya.shape[1:] != yb.shape[1:]:
            return f"shapes {list(ya.shape)},{list(pa.shape)} vs {list(yb.shape)},{list(pb.shape)}"
        N, K = pa.shape
        for n in range(N):
            for k in range(K):
                x, z = float(pa[n, k]), float(pb[n, k])
                if x == NEG and z == NEG:
                    continue
                pra = [int(t) for t in ya[: int(la[n, k]), n, k].tolist()]
                prb = [int(t) for t in yb[: int(lb[n, k]), n, k].tolist()]
                if frac_str(x) != frac_str(z) or pra != prb:
                    return f"n={n} slot {k}: {pra} with {x!r} vs {prb} with {z!r}"
        return None

    def live_module(self, case, final, dtype, logits, lens, make_extra):
        """The object the observed call is made on.  Without `case["life"]`: a module constructed with the
        case's values.  With it: a module constructed with OTHER values (`ctor`), called `warm` times, then
        its public attributes (`width`, `beta`, `valid_mixture`, `lm`) reassigned one by one to the case's
        values (in the order `order`; `between`: a call after every single reassignment), train() / eval()
        toggles, `reset_parameters()`, optionally a deepcopy of the object.  Every call on the way is made on a
        module constructed at that moment with the object's current values as well; the two must agree."""
        import copy
        import torch
        from pydrobert.torch.modules import CTCPrefixSearch
        V = case["V"]
        life = case.get("life") or {}
        ctor = life.get("ctor") or {}
        cur = dict(final)
        if "width" in ctor:
            cur["width"] = ctor["width"]
        if "beta" in ctor:
            cur["beta"] = float(Fraction(ctor["beta"]))
        if "valid" in ctor:
            cur["valid"] = bool(ctor["valid"])
        if "lm" in ctor:
            cur["lm"] = None if ctor["lm"] is None else make_lm(V, ctor["lm"], dtype)
        search = CTCPrefixSearch(cur["width"], cur["beta"], cur["lm"], cur["valid"])
        obj = {"calls": 0, "dev": [], "mutated": [], "unrepeatable": [], "repeat": None, "fresh": None}
        if not life:
            return search, obj
        lg = logits.detach()

        def describe():
            return (f"width={cur['width']} beta={cur['beta']!r} valid_mixture={cur['valid']} "
                    f"lm={'None' if cur['lm'] is None else 'final' if cur['lm'] is final['lm'] else 'other'}")

        def probe(where, which):
            T, N = lg.size(0), lg.size(1)
            if which == "values":        # same shapes, other numbers
                args = lambda: (lg.flip(0).roll(1, 2), lens)
            elif which == "shape":       # other T and N
                base = torch.arange((T + 1) * (N + 1) * (V + 1), dtype=lg.dtype).view(T + 1, N + 1, V + 1)
                args = lambda: ((base * 0.7).sin() * 2, None)
            elif which == "raises":      # a call that is rejected leaves nothing behind
                try:
                    with torch.no_grad():
                        search(lg[:, 0], lens)
                except Exception:
                    pass
                return
            else:                        # the very input of the observed call
                ex = make_extra if cur["lm"] is final["lm"] else (lambda: ())
                args = lambda: (lg, lens) + ex()
            obj["calls"] += 1
            with poisoned_empty(poison_of(case)), torch.no_grad():
                a = search(*args())
                fresh = CTCPrefixSearch(cur["width"], cur["beta"], cur["lm"], cur["valid"])
                fresh.train(search.training)
                b = fresh(*args())
            d = self.result_diff(a, b)
            if d is not None:
                obj["dev"].append(f"{where} ({which} input; object now has {describe()}): object vs fresh module: {d}")

        for i in range(life.get("warm", 0)):
            probe(f"call {i} after construction", life.get("warm_input", "same"))
        for name in life.get("order") or sorted(ctor):
            if name not in ctor:
                continue
            cur[name] = final[name]
            setattr(search, "valid_mixture" if name == "valid" else name, final[name])
            if life.get("between"):
                probe(f"call after `{name}` was reassigned", "same")
        for m in life.get("mode") or []:
            search.train() if m == "train" else search.eval()
        if life.get("reset"):
            search.reset_parameters()
        if life.get("via") == "deepcopy":
            search = copy.deepcopy(search)
        return search, obj

    @staticmethod
    def result_obs(y, y_lens, probs, n):
        K = probs.size(1)
        ln = [int(x) for x in y_lens[n].tolist()]
        return {"prefixes": [[int(t) for t in y[: ln[k], n, k].tolist()] for k in range(K)], "lens": ln,
                "probs": [frac_str(x) for x in probs[n].tolist()], "S": int(y.size(0))}

    def element_obs(self, calls, n, len_n, y, y_lens, probs, V, light=False):
        """`light` (elements of a large batch that do not go through Lean): without the K' x V extension scores"""
        steps = []
        for c in calls:
            width = c["width"]
            yi, lasti, lensi, nbi, bi, ispi = c["in"]
            yo, lasto, lenso, nbo, bo, ispo, src, non = c["out"]
            Kp = nbi.size(1)
            K = min(width, Kp * (V + 1))
            src_l = [int(x) for x in src[n].tolist()]
            non_l = [bool(x) for x in non[n].tolist()]
            last_l = [int(x) for x in lasto[n].tolist()]
            sel = [Kp * V + src_l[j] if non_l[j] else src_l[j] * V + last_l[j] for j in range(K)]
            steps.append({
                "in": state_obs(yi, lasti, lensi, nbi, bi, ispi, n),
                "out": state_obs(yo, lasto, lenso, nbo, bo, ispo, n),
                "src": src_l, "is_nonext": non_l, "sel": sel, "width": width,
                "ext": None if light else [[frac_str(x) for x in row] for row in c["ext"][n].tolist()],
                "tok": [frac_str(x) for x in c["tok"][n].tolist()],
                "blank": frac_str(c["blank"][n].item()),
            })
        return {"len": len_n, "steps": steps, "result": self.result_obs(y, y_lens, probs, n)}

    def attach_lm_tables(self, case, obs, calls, lens_l, dtype):
        """With fusion: the extension probability of every prefix as an independent function of the
        prefix (harness LM evaluated on the prefix itself), (a) compared with what the search handed
        to the step function for the slot holding that prefix, (b) given to the specification."""
        import torch
        lm_spec = case.get("lm")
        if lm_spec is None or Fraction(lm_spec["beta"]) == 0:
            return
        V = case["V"]
        beta = float(Fraction(lm_spec["beta"]))
        tol = tol_of(case)
        floor = floor_of(case)

        h0s = lm_spec.get("init")

        def factor(prefix, n):
            """the LM factor of the fusion formula: the part that needs a transcendental function"""
            lg = torch.tensor(lm_row(lm_spec, V, prefix, 1 if h0s is None else h0s[n]),
                              dtype=torch_dtype(lm_spec.get("dtype") or case["dtype"]))
            if lm_spec["valid"]:
                return lg.softmax(-1)
            return (beta * lg.log_softmax(-1)).exp()

        judged = judge_of(case)["elements"]
        for n, el in enumerate(obs["elements"]):
            if judged is not None and n not in judged:
                continue
            tables, dev, factors = [], [], []
            closure = prefix_closure(reported_prefixes(el["result"]))
            for t, c in enumerate(calls[: lens_l[n]]):
                tok, blank = c["tok"][n], c["blank"][n]
                tab, ftab = {}, []
                st = el["steps"][t]["in"]
                held = [st["prefixes"][k] for k in range(len(st["nb"])) if not isinstance(tot_of(st, k), str)]
                for p in table_prefixes(V, t, held, closure):
                    fac = factor(p, n)
                    tab[p] = [Fraction(float(x)) for x in (((1.0 - beta) * tok + beta * fac * (1 - blank))
                                                           if lm_spec["valid"] else fac * tok).tolist()]
                    ftab.append([list(p), [frac_str(x) for x in fac.tolist()]])
                factors.append(ftab)
                for k, p in enumerate(st["prefixes"]):
                    if isinstance(tot_of(st, k), str):
                        continue  # slot holds no prefix
                    got = [F(x) for x in el["steps"][t]["ext"][k]]
                    want = tab.get(tuple(p))
                    # valid mixture: the formula's (1 - blank) is formed in floating point (absolute error of a few
                    # eps, however small the true value): that much of beta * LM factor is rounding, not a deviation
                    slack = [Fraction(0)] * V
                    if lm_spec["valid"] and tuple(p) in tab:
                        slack = [mix_slack(case, Fraction(beta), Fraction(float(x))) for x in factor(tuple(p), n).tolist()]
                    if want is None or any(isinstance(g, str) or not close(g, w, tol, floor + sl)
                                           for g, w, sl in zip(got, want, slack)):
                        dev.append({"t": t, "slot": k, "prefix": p, "got": [str(g) for g in got],
                                    "want": None if want is None else [str(w) for w in want]})
                    else:
                        tab[tuple(p)] = got  # same numbers for model and specification
                tables.append([[list(p), [frac_str(x) for x in row]] for p, row in tab.items()])
            el["ext_table"] = tables
            el["ext_dev"] = dev
            # for the Lean model of the fusion (`lmExt` / `fuse`): the LM factors and the mixture weight the
            # module carries at the time of the call (None: plain fusion)
            el["lm_factor"] = factors
            el["mix"] = frac_str(Fraction(beta)) if lm_spec["valid"] else None

    def attach_oracle(self, case, obs, lens_l, beta):
        """The exact frame probabilities / fused extension scores of every element AS A FUNCTION OF THE CASE'S
        LOGITS (c05_oracle: rational max-shift, decimal exp at 60 digits — no torch, no floats), for the Lean
        specification, and the rounding budget of a floating-point evaluation in the case's dtype."""
        V = case["V"]
        eps = orc.EPS[case["dtype"]]
        eps_mass = orc.EPS[eff_dtype(case)]
        lm_spec = case.get("lm")
        fused = lm_spec is not None and Fraction(lm_spec["beta"]) != 0
        beta_q = Fraction(beta)             # the number the object holds (a python float or int), exactly
        h0s = (lm_spec or {}).get("init")
        judged = judge_of(case)["elements"]
        for n, el in enumerate(obs["elements"]):
            if judged is not None and n not in judged:
                continue
            frames, tables, ftol, total = [], [], [], Fraction(1)
            factors = {}
            closure = prefix_closure(reported_prefixes(el["result"]))
            for t in range(lens_l[n]):
                row = [dec(x) for x in case["logits"][t][n]]
                tok, blank = orc.frame_exact(row)
                frames.append({"tok": [frac_str(x) for x in tok], "blank": frac_str(blank)})
                ftol.append(frac_str(orc.growth(orc.frame_units(row), eps)))
                total += orc.ext_units(row, sum(tok, Fraction(0)), bool(fused and lm_spec["valid"]), fused) + 4
                if fused:
                    tab = []
                    st = el["steps"][t]["in"]
                    held = [st["prefixes"][k] for k in range(len(st["nb"])) if not isinstance(tot_of(st, k), str)]
                    for p in table_prefixes(V, t, held, closure):
                        if p not in factors:
                            factors[p] = orc.lm_factor_exact(lm_row(lm_spec, V, p, 1 if h0s is None else h0s[n]),
                                                             lm_spec["valid"], beta_q)
                        ext = orc.fuse_exact(tok, blank, factors[p], lm_spec["valid"], beta_q)
                        tab.append([list(p), [frac_str(x) for x in ext]])
                    tables.append(tab)
            el["oracle"] = {"frames": frames, "ext_table": tables if fused else None, "frame_tol": ftol,
                            "mass_tol": frac_str(orc.growth(total, eps_mass)),
                            "frame_floor": frac_str(orc.FLOOR[case["dtype"]]),
                            "floor": frac_str(4 * (lens_l[n] + 1) * (V + 1) * orc.FLOOR[eff_dtype(case)])}

    # ------------------------------------------------------------------ model
    def model_request(self, case):
        if case.get("expect_error"):
            return None
        c = self._cache
        if not c or c.get("key") != self.key(case):
            return None
        obs = c["obs"]
        if "elements" not in obs:
            return None
        els = []
        judge = judge_of(case)
        for n, el in enumerate(obs["elements"]):
            if judge["elements"] is not None and n not in judge["elements"]:
                els.append({"skip": True})      # large batch: this element is judged without Lean
                continue
            if judge["model"]:
                frames = [{"ext": s["ext"], "nonext": s["tok"], "blank": s["blank"], "sel": s["sel"], "width": s["width"]}
                          for s in el["steps"]]
            else:
                # the largest size classes: the array model is not run (specification only)
                frames = [{"ext": [], "nonext": s["tok"], "blank": s["blank"], "width": s["width"]} for s in el["steps"]]
            keeps = []
            for s in el["steps"][: el["len"]]:
                o = s["out"]
                keeps.append([o["prefixes"][k] for k in range(len(o["nb"])) if not isinstance(tot_of(o, k), str)])
            e = {"len": el["len"], "frames": frames, "keeps": keeps, "model": judge["model"],
                 # is the choice of survivors a legitimate top-K of the specification's candidate totals? (needs
                 # the total of EVERY candidate: skipped for tolerance runs of more than 32 frames)
                 "topk": case["stream"] == "exact" or n_frames(case) <= 32}
            if el.get("ext_table") is not None:
                e["ext_table"] = el["ext_table"]
                self.check_tables(case, el, el["ext_table"], keeps)
            init = case.get("init")
            if init is not None:
                den = case.get("denom", 16)
                xs = lambda v: "-inf" if v == "-inf" else frac_str(Fraction(v, den))
                # the model keeps tokens as naturals: negative junk (beyond the valid lengths / last token of a
                # slot without tokens) is handed over as 0 - what the lower half of the code's clamp(0, V - 1)
                # makes of it at every place it is read
                nat = lambda x: max(0, x)
                e["init"] = {"tm1": init["tm1"], "y": [[nat(x) for x in col] for col in init["y"]],
                             "last": [nat(x) for x in init["last"]], "lens": init["lens"],
                             "nb": [xs(v) for v in init["nb"]], "b": [xs(v) for v in init["b"]],
                             "is_prefix": init["is_prefix"]}
            # true mass by enumeration of all (V+1)^T alignments: only while that is small
            e["mass"] = self.wants_mass(case, el)
            # ... and of the reported prefixes by the forward algorithm (cross-checked against the enumeration in
            # the driver whenever both are computed)
            if judge["dp"] and case.get("init") is None:
                e["mass_for"] = reported_prefixes(el["result"])
            if el.get("lm_states") is not None:
                e["lm_h0"] = el["lm_h0"]
            if el.get("lm_factor") is not None:
                e["lm_factor"], e["mix"] = el["lm_factor"], el["mix"]
            if el.get("oracle") is not None:
                e["oracle"] = {"frames": el["oracle"]["frames"]}
                if el["oracle"]["ext_table"] is not None:
                    e["oracle"]["ext_table"] = el["oracle"]["ext_table"]
                    self.check_tables(case, el, el["oracle"]["ext_table"], keeps)
            els.append(e)
        return {"op": "c05.case", "case": {"fix": not PINNED_MODEL, "V": case["V"], "width": case["width"],
                                           "elements": els}}

    @staticmethod
    def check_tables(case, el, tables, keeps):
        """The driver reads a prefix that is missing from a per-prefix table as 'no fusion' (token probability):
        a table that does not cover what the specification reads would silently judge a fused run by unfused
        numbers.  Tables that do not list every prefix must cover the beam of every frame and the prefixes of the
        reported prefixes."""
        if case.get("init") is not None:
            return
        closure = prefix_closure(reported_prefixes(el["result"])) if judge_of(case)["dp"] else set()
        for t, tab in enumerate(tables[: el["len"]]):
            have = {tuple(p) for p, _row in tab}
            need = ({tuple(p) for p in keeps[t - 1]} if t else {()}) | {q for q in closure if len(q) <= t}
            if not need <= have:
                raise AssertionError(f"per-prefix table of frame {t} does not cover {sorted(need - have)[:3]}")

    @staticmethod
    def wants_mass(case, el):
        return case.get("init") is None and (case["V"] + 1) ** min(el["len"], len(el["steps"])) <= 4200

    # ------------------------------------------------------------------ correspondence
    def cmp_state(self, where, a, m, tol, out, floor=0):
        for fld in ("prefixes", "last", "lens", "is_prefix"):
            if a[fld] != m[fld]:
                out.append(f"{where}.{fld}: impl={a[fld]} model={m[fld]}")
        for fld in ("nb", "b"):
            if len(a[fld]) != len(m[fld]) or any(not close(F(x), F(y), tol, floor) for x, y in zip(a[fld], m[fld])):
                out.append(f"{where}.{fld}: impl={a[fld]} model={m[fld]}")

    def compare(self, case, impl, model):
        if case.get("expect_error") or model is None:
            return []
        if "error" in impl or "elements" not in impl:
            return [f"implementation gave {impl.get('error', impl)}"]
        tol = 0 if case["stream"] == "exact" else tol_of(case)
        floor = floor_of(case)
        out = []
        for n, (a, m) in enumerate(zip(impl["elements"], model["elements"])):
            mm = m.get("model")
            if mm is None:      # element judged without the array model (size classes)
                continue
            for t, (sa, sm) in enumerate(zip(a["steps"], mm["steps"])):
                w = f"n={n} t={t}"
                self.cmp_state(w + " out", sa["out"], sm["out"], tol, out, floor)
                if sa["src"] != sm["src"] or sa["is_nonext"] != sm["is_nonext"]:
                    out.append(f"{w}: src/is_nonext impl={sa['src']},{sa['is_nonext']} model={sm['src']},{sm['is_nonext']}")
                if t + 1 < len(a["steps"]):
                    self.cmp_state(f"n={n} carried after t={t}", a["steps"][t + 1]["in"], sm["carried"], tol, out, floor)
                viol = Fraction(sm["sel_violation"])
                if not sm["sel_ok"] and not sm["cand_nan"] and t < a["len"]:
                    scale = max([abs(F(x)) for x in sa["out"]["nb"] + sa["out"]["b"] if not isinstance(F(x), str)] + [Fraction(1, 10 ** 30)])
                    if tol == 0 or viol > tol * scale + floor:
                        out.append(f"{w}: the implementation's selection {sa['sel']} is not a top-K of the model's "
                                   f"candidate totals (violation {float(viol):.3g})")
                if out:
                    return out[:6]
            if a.get("lm_factor") is not None and mm.get("lm_ext") is not None:
                # what the module handed to the step function as `ext_probs_t` vs. the Lean model of the fusion
                # (`lmExt`: fuse(mix = the module's current beta / None, LM factor, tok, blank)) on real slots
                tl = tol_of(case)
                for t, (sa, em) in enumerate(zip(a["steps"], mm["lm_ext"])):
                    st = sa["in"]
                    ftab = {tuple(p): row for p, row in (a["lm_factor"][t] if t < len(a["lm_factor"]) else [])}
                    for k in range(len(st["nb"])):
                        if isinstance(tot_of(st, k), str) or k >= len(em):
                            continue
                        frow = ftab.get(tuple(st["prefixes"][k])) if a.get("mix") is not None else None
                        slack = [Fraction(0)] * len(em[k]) if frow is None else \
                            [mix_slack(case, Fraction(a["mix"]), Fraction(x)) for x in frow]
                        if any(not close(F(x), F(y), tl, floor + sl) for x, y, sl in zip(sa["ext"][k], em[k], slack)):
                            out.append(f"n={n} t={t} slot {k} (prefix {st['prefixes'][k]}): ext_probs_t impl={sa['ext'][k]} "
                                       f"model(lmExt, mix={a['mix']})={em[k]}")
                            break
                    if out:
                        break
            if a.get("lm_states") is not None and mm.get("lm_states") is not None:
                for t, (ha, hm) in enumerate(zip(a["lm_states"], mm["lm_states"])):
                    if ha != hm:
                        out.append(f"n={n} t={t}: LM state given to the slots impl={ha} model(routeStates)={hm}")
                        break
            ra, rm = a["result"], mm["result"]
            if ra["prefixes"] != rm["prefixes"] or ra["lens"] != rm["lens"] or \
                    any(not close(F(x), F(y), tol, floor) for x, y in zip(ra["probs"], rm["probs"])):
                out.append(f"n={n} result: impl={ra} model={rm}")
        return out[:6]

    # ------------------------------------------------------------------ the property on the implementation
    def predicate(self, case, impl, model):
        exp = case.get("expect_error")
        if exp:
            if impl.get("error") == exp:
                return []
            return [(f"malformed input: expected {exp}, got {impl.get('error', 'a result')}", "C05.malformed")]
        if "error" in impl:
            return [(f"implementation raised {impl['error']}: {impl.get('message')}", "C05.raises")]
        if "shape_error" in impl:
            return [(f"result shapes {impl['shape_error']}", "C05.shape")]
        if "nonfinite" in impl:
            return [(impl["nonfinite"], "C05.frame_probs")]
        fails = []
        ob = impl.get("object") or {}
        for d in (ob.get("dev") or [])[:2]:
            fails.append((d, "C05.object_state"))
        if ob.get("fresh"):
            fails.append(("the observed call on the re-configured object differs from the same call on a freshly "
                          "constructed module with the same attribute values: " + ob["fresh"], "C05.object_state"))
        if ob.get("repeat"):
            fails.append(("the same call made twice on the same object gives two answers: " + ob["repeat"], "C05.repeat"))
        if ob.get("unrepeatable"):
            fails.append(("ctc_prefix_search_advance called twice with the same arguments gives two answers: "
                          + ob["unrepeatable"][0], "C05.repeat"))
        if ob.get("mutated"):
            fails.append(("the call wrote into its caller's tensor: " + ob["mutated"][0], "C05.input_mutated"))
        V = case["V"]
        widths = case.get("widths") or None
        width = widths[-1] if widths else case["width"]       # slots of the result
        S0 = case["init"]["tm1"] if case.get("init") else 0
        tol = 0 if case["stream"] == "exact" else tol_of(case)
        floor = floor_of(case)
        dts = ob.get("dtypes")
        lmd = (case.get("lm") or {}).get("dtype")
        okd = {dts[3]} if dts else set()
        if dts and lmd:     # LM scores in another dtype: torch's type promotion decides (not documented)
            import torch
            okd |= {str(torch_dtype(lmd)), str(torch.promote_types(torch_dtype(lmd), torch_dtype(case["dtype"])))}
        if dts and (dts[0] != "torch.int64" or dts[1] != "torch.int64" or dts[2] not in okd):
            fails.append((f"result dtypes: y {dts[0]}, y_lens {dts[1]} (documented: long), y_probs {dts[2]} for logits "
                          f"of dtype {dts[3]}", "C05.dtype"))
        zero_probs = any(F(x) == 0 for el in impl["elements"] for s in el["steps"] for x in s["tok"] + [s["blank"]])
        for n, el in enumerate(impl["elements"]):
            res = el["result"]
            probs = [F(x) for x in res["probs"]]
            spec = model["elements"][n].get("spec") if model is not None else None
            if len(probs) != width or len(res["lens"]) != width:
                fails.append((f"n={n}: {len(probs)} slots for width {width}", "C05.shape"))
                continue
            # --- never NaN (any call, any slot, and the result)
            nan_at = None
            for t, s in enumerate(el["steps"][: el["len"]]):
                if any(F(x) == "nan" for x in s["out"]["nb"] + s["out"]["b"]):
                    nan_at = t
                    break
            if nan_at is not None or "nan" in probs:
                sig = "C05.nan.zero_prob" if zero_probs else "C05.nan.width_exceeds_live"
                fails.append((f"n={n}: NaN mass (first at frame {nan_at}); result probs {res['probs']}", sig))
                continue
            if any(p == "inf" for p in probs):
                fails.append((f"n={n}: +inf mass {res['probs']}", "C05.inf"))
                continue
            # --- the documented return values of every step: `next_is_prefix[k][k']` iff slot k's prefix is
            # a prefix of slot k''s, `y_next_last` = last token (real slots; the state the next call relies on)
            for t, s in enumerate(el["steps"][: el["len"]]):
                o = s["out"]
                real_k = [k for k in range(len(o["nb"])) if not isinstance(tot_of(o, k), str)]
                bad = [(k, k2) for k in real_k for k2 in real_k
                       if (o["is_prefix"][k][k2] == "1") != (o["prefixes"][k2][: len(o["prefixes"][k])] == o["prefixes"][k])]
                if bad:
                    k, k2 = bad[0]
                    fails.append((f"n={n}: after frame {t} the prefix matrix says slot {k} {o['prefixes'][k]} "
                                  f"{'is' if o['is_prefix'][k][k2] == '1' else 'is not'} a prefix of slot {k2} "
                                  f"{o['prefixes'][k2]}", "C05.step.is_prefix"))
                    break
                badl = [k for k in real_k if o["prefixes"][k] and o["last"][k] != o["prefixes"][k][-1]]
                if badl:
                    fails.append((f"n={n}: after frame {t} slot {badl[0]} holds {o['prefixes'][badl[0]]} but its "
                                  f"last token is reported as {o['last'][badl[0]]}", "C05.step.last"))
                    break
            # --- shape: real prefixes distinct, blank-free, not longer than the input; order; filler
            real = [(k, tuple(res["prefixes"][k]), probs[k]) for k in range(width) if not isinstance(probs[k], str) and probs[k] > 0]
            seen = {}
            for k, p, pr in real:
                if p in seen:
                    fails.append((f"n={n}: prefix {list(p)} with positive mass in slots {seen[p]} and {k}", "C05.duplicate"))
                seen.setdefault(p, k)
                if any(not (0 <= v < V) for v in p):
                    fails.append((f"n={n}: slot {k} holds a token outside [0,{V}): {list(p)}", "C05.token_range"))
                if len(p) > el["len"] + S0:
                    fails.append((f"n={n}: slot {k} prefix longer ({len(p)}) than its input ({el['len'] + S0})", "C05.too_long"))
            for k in range(width - 1):
                if not leq(probs[k + 1], probs[k], tol, floor):
                    fails.append((f"n={n}: probabilities not non-increasing at slot {k}: {res['probs']}", "C05.order"))
                    break
            for k in range(width):
                if isinstance(probs[k], Fraction) and probs[k] < 0:
                    fails.append((f"n={n}: negative mass in slot {k}", "C05.negative"))
            # --- batch independence
            al = el.get("alone")
            if al is not None:
                same = al["prefixes"] == res["prefixes"] and al["lens"] == res["lens"] and \
                    all(close(F(x), F(y), tol, floor) for x, y in zip(al["probs"], res["probs"]))
                if not same:
                    # slots without a real prefix may legitimately differ in their (unspecified) tokens
                    ra = [(tuple(al["prefixes"][k]), F(al["probs"][k])) for k in range(width) if F(al["probs"][k]) != "-inf"]
                    rb = [(tuple(res["prefixes"][k]), probs[k]) for k in range(width) if probs[k] != "-inf"]
                    if len(ra) != len(rb) or any(x[0] != y[0] or not close(x[1], y[1], tol, floor) for x, y in zip(ra, rb)):
                        fails.append((f"n={n}: result differs from searching the element's own frames alone: "
                                      f"batched={rb[:6]} alone={ra[:6]}", "C05.batch"))
            lmc = case.get("lm")
            if case["kind"] == "module" and (lmc is None or Fraction(lmc["beta"]) == 0):
                # no language model (or weight 0) on the object NOW: extension scores are the token probabilities
                for t, s in enumerate(el["steps"][: el["len"]]):
                    badk = [k for k in range(len(s["in"]["nb"])) if not isinstance(tot_of(s["in"], k), str)
                            and s["ext"] is not None and s["ext"][k] != s["tok"]]
                    if badk:
                        fails.append((f"n={n}: the module has {'no language model' if lmc is None else 'beta = 0'} but the "
                                      f"extension probabilities of slot {badk[0]} at frame {t} are {s['ext'][badk[0]]}, "
                                      f"not the token probabilities {s['tok']}", "C05.fusion.ext_mismatch"))
                        break
            if el.get("ext_dev"):
                d = el["ext_dev"][0]
                fails.append((f"n={n}: extension probabilities handed to the step function for slot {d['slot']} "
                              f"(prefix {d['prefix']}) at frame {d['t']} are not the fused LM scores of that prefix: "
                              f"{d['got']} vs {d['want']}", "C05.fusion.ext_mismatch"))
            if spec is None:
                continue
            # --- mass: equals the prefix-beam recursion of that width; exact when unpruned; never more
            has_mass = spec["mass"] is not None
            mass = {tuple(e["p"]): Fraction(e["m"]) for e in (spec["mass"] or [])}
            beam = {tuple(e["p"]): Fraction(e["nb"]) + Fraction(e["b"]) for e in spec["beam"]}
            fin = [(k, tuple(res["prefixes"][k]), probs[k]) for k in range(width) if isinstance(probs[k], Fraction)]
            for k, p, pr in fin:
                if has_mass and pr > 0 and not leq(pr, mass.get(p, Fraction(0)), tol, floor):
                    fails.append((f"n={n}: slot {k} reports {float(pr):.6g} for {list(p)}, more than its true mass "
                                  f"{float(mass.get(p, 0)):.6g}", "C05.over"))
                if pr > 0 and not close(pr, beam.get(p, Fraction(0)), tol, floor):
                    fails.append((f"n={n}: slot {k} reports {float(pr):.6g} for {list(p)}, the width-{width} "
                                  f"prefix-beam recursion gives {float(beam.get(p, 0)):.6g}", "C05.beam_mass"))
            got = {}
            for k, p, pr in fin:
                got[p] = max(got.get(p, Fraction(0)), pr)
            for p, b in beam.items():
                if b > 0 and not close(got.get(p, Fraction(0)), b, tol, floor):
                    fails.append((f"n={n}: prefix {list(p)} has mass {float(b):.6g} in the prefix-beam recursion but "
                                  f"the search reports {float(got.get(p, 0)):.6g}", "C05.poison.neginf_duplicate"
                                  if p not in got or got[p] == 0 else "C05.beam_mass"))
                    break
            pruned = any(f["pruned"] for f in spec["frames"])
            if not pruned and has_mass:
                for p, m in mass.items():
                    if m > 0 and not close(got.get(p, Fraction(0)), m, tol, floor):
                        fails.append((f"n={n}: nothing had to be pruned, prefix {list(p)} has true mass {float(m):.6g} "
                                      f"but the search reports {float(got.get(p, 0)):.6g}", "C05.lost_unpruned"))
                        break
            for t, f in enumerate(spec["frames"]):
                wt = widths[t] if widths else width
                if f["nkeep"] < min(wt, f["ncands"]):
                    fails.append((f"n={n}: frame {t} keeps {f['nkeep']} of {f['ncands']} candidate prefixes although "
                                  f"the width {wt} has room: a real prefix was dropped / wiped", "C05.poison.neginf_duplicate"))
                    break
            if tol == 0:
                for t, f in enumerate(spec["frames"]):
                    wt = widths[t] if widths else width
                    if not f["topk_ok"]:
                        fails.append((f"n={n}: the prefixes kept at frame {t} are not the best {wt} candidates "
                                      f"of the prefix-beam recursion", "C05.not_topk"))
                        break
            else:
                # tolerance streams: a dropped candidate may beat a kept one by rounding only
                for t, f in enumerate(spec["frames"]):
                    if not f.get("topk_checked"):
                        continue
                    wt = widths[t] if widths else width
                    viol, scale = Fraction(f["topk_viol"]), Fraction(f["topk_scale"])
                    if viol > tol * scale + floor:
                        fails.append((f"n={n}: the prefixes kept at frame {t} are not the best {wt} candidates of the "
                                      f"prefix-beam recursion: a dropped candidate (or a later slot) has {float(viol):.6g} "
                                      f"more mass than a kept one (largest kept mass {float(scale):.6g})", "C05.not_topk"))
                        break
            # --- the masses of the CALLER'S scores (specification on the exact softmax / fusion of the logits)
            ex = model["elements"][n].get("spec_exact")
            if ex and el.get("oracle"):
                fails.extend(self.exact_predicate(case, n, el, fin, ex, el["oracle"]))
        return fails[:8]

    @staticmethod
    def exact_predicate(case, n, el, fin, ex, o):
        """The property against the exact probabilities of the logits the caller gave (c05_oracle), at the
        accuracy of the INPUT dtype: tolerance = first-order rounding budget of the run in that dtype
        (`mass_tol`, relative) + the dtype's underflow unit (`floor`, absolute).
        (a) the probabilities handed to the step function are the softmax of the logits;
        (b) every reported mass = the prefix-beam recursion (same survivors) on the exact probabilities,
        (c) never more than the true mass (all alignments), (d) = the true mass when nothing was pruned."""
        out = []
        dt = case["dtype"]
        rel, fl, ffl = Fraction(o["mass_tol"]), Fraction(o["floor"]), Fraction(o["frame_floor"])
        for t, (s, fo, ft) in enumerate(zip(el["steps"][: el["len"]], o["frames"], o["frame_tol"])):
            ft = Fraction(ft)
            got = [F(x) for x in s["tok"]] + [F(s["blank"])]
            want = [Fraction(x) for x in fo["tok"]] + [Fraction(fo["blank"])]
            bad = [i for i, (g, w) in enumerate(zip(got, want)) if isinstance(g, str) or abs(g - w) > ft * w + ffl]
            if bad:
                i = bad[0]
                g, w = got[i], want[i]
                err = "" if isinstance(g, str) or w == 0 else f" (relative error {float(abs(g - w) / w):.3g}, {dt} allows {float(ft):.3g})"
                out.append((f"n={n}: frame {t}: the probability of {'the blank' if i == len(got) - 1 else f'token {i}'} handed "
                            f"to the step function is {g if isinstance(g, str) else repr(float(g))}, the softmax of the "
                            f"logits {case['logits'][t][n]} gives {float(w)!r}{err}", "C05.frame_probs"))
                break
        beam = {tuple(e["p"]): Fraction(e["nb"]) + Fraction(e["b"]) for e in ex["beam"]}
        mass = None if ex["mass"] is None else {tuple(e["p"]): Fraction(e["m"]) for e in ex["mass"]}

        def off(x, y):
            return "" if y == 0 else f" (relative error {float(abs(x - y) / y):.3g}, {dt} allows {float(rel):.3g})"

        got = {}
        for k, p, pr in fin:
            got[p] = max(got.get(p, Fraction(0)), pr)
        for k, p, pr in fin:
            b = beam.get(p, Fraction(0))
            if (pr > 0 or p in beam) and abs(pr - b) > rel * b + fl:
                out.append((f"n={n}: slot {k} reports {float(pr)!r} for {list(p)}; the width-{case['width']} prefix-beam "
                            f"recursion on the exact probabilities of the given logits gives {float(b)!r}{off(pr, b)}",
                            "C05.exact.beam_mass"))
                break
        for k, p, pr in fin:
            if mass is not None and pr > 0 and pr > mass.get(p, Fraction(0)) * (1 + rel) + fl:
                m = mass.get(p, Fraction(0))
                out.append((f"n={n}: slot {k} reports {float(pr)!r} for {list(p)}, MORE than its true mass {float(m)!r} "
                            f"under the given logits{off(pr, m)}", "C05.exact.over"))
                break
        for p, b in beam.items():
            if p not in got and b > fl:
                out.append((f"n={n}: prefix {list(p)} has mass {float(b)!r} in the prefix-beam recursion on the exact "
                            f"probabilities of the given logits but is not reported", "C05.exact.beam_mass"))
                break
        # (e) in aggregate (C05_reported_total): without fusion, or with plain fusion (LM factor <= 1), the frames are
        # sub-stochastic, so the reported probabilities add up to at most one
        lmc = case.get("lm")
        if not (lmc and lmc["valid"] and Fraction(lmc["beta"]) != 0):
            tot = sum((pr for _k, _p, pr in fin if pr > 0), Fraction(0))
            if tot > 1 + rel + fl:
                out.append((f"n={n}: the reported probabilities add up to {float(tot)!r} > 1", "C05.exact.total"))
        if mass is not None and not any(f["pruned"] for f in ex["frames"]):
            for p, m in mass.items():
                x = got.get(p, Fraction(0))
                if abs(x - m) > rel * m + fl:
                    out.append((f"n={n}: nothing had to be pruned, prefix {list(p)} has true mass {float(m)!r} under the "
                                f"given logits but the search reports {float(x)!r}{off(x, m)}", "C05.exact.unpruned"))
                    break
        return out

    # ------------------------------------------------------------------ evidence helpers
    def nontrivial(self, case, impl):
        if case.get("expect_error") or "elements" not in impl:
            return False
        V, width = case["V"], case["width"]
        for el in impl["elements"]:
            for s in el["steps"][: el["len"]]:
                i = s["in"]
                live = sum(1 for k in range(len(i["nb"])) if not isinstance(tot_of(i, k), str))
                # candidates: every live prefix and its V extensions, minus merges
                if width != live * (V + 1):
                    return True
        return False

    def key(self, case):
        import json
        return json.dumps(case, sort_keys=True)

    def tags(self, case, impl):
        t = [f"kind={case['kind']}", f"stream={case['stream']}", f"V={case['V']}", f"dtype={case['dtype']}"]
        w = case["width"]
        t.append("width=" + ("1" if w == 1 else "2-6" if w <= 6 else "7-20" if w <= 20 else "21-50" if w <= 50 else
                             "51-100" if w <= 100 else ">100"))
        wm = max((case.get("widths") or []) + [w] + ([len(case["init"]["nb"])] if case.get("init") else []))
        t.append("size:K'*K'*V " + c05_size.band(wm * wm * case["V"]))
        if case["V"] > 3:
            t.append("size:V " + ("4-33" if case["V"] <= 33 else "64-65" if case["V"] <= 65 else "128-257"))
        Tn = n_frames(case)
        if Tn > 8:
            t.append("size:T " + ("9-64" if Tn <= 64 else "65-128" if Tn <= 128 else "129-300"))
        if case["kind"] == "module" and Tn and len(case["logits"][0]) > 3:
            Nn = len(case["logits"][0])
            t.append("size:N " + ("16-33" if Nn <= 33 else "64-128"))
            t.append("size:N*K'*V " + c05_size.band(Nn * w * case["V"]))
        if case["kind"] == "module" and Tn:
            t.append("size:numel(logits) " + c05_size.band(Tn * len(case["logits"][0]) * (case["V"] + 1)))
        jd = judge_of(case)
        if not jd["model"]:
            t.append("judged:specification only (array model not run)")
        if jd["elements"] is not None:
            t.append("judged:sample of the batch through Lean")
        if not jd["dp"]:
            t.append("judged:no forward-algorithm mass (long tolerance run)")
        if case.get("expect_error"):
            t.append("malformed")
            return t
        if case.get("lm"):
            lm = case["lm"]
            t.append(f"lm beta={lm['beta']} valid={lm['valid']}")
            t.append("lm kind=" + lm.get("kind", "hash") + ("+" + lm.get("second", "shapes") if lm.get("kind") == "fusion" else ""))
            if lm.get("init") is not None:
                t.append("lm initial-state-by-caller")
            if lm.get("dtype"):
                t.append(f"lm scores in another dtype ({lm['dtype']} under {case['dtype']} logits)")
        else:
            t.append("no-lm")
        t.append("gen=" + case.get("gen", "base"))
        t.append("uninitialised cells hold: " + ("a negative number" if poison_of(case) < 0 else "a token beyond the vocabulary"))
        if case.get("init") and any(x < 0 for col in case["init"]["y"] for x in col) or \
                case.get("init") and any(x < 0 for x in case["init"]["last"]):
            t.append("advance:negative junk in the caller's state")
        for wd in case.get("wide") or []:
            t.append("scores:" + {"offset": "large common offset", "spread": "range up to the dtype's exponent range",
                                  "-inf": "label ruled out by -inf"}.get(wd, wd))
        if case["kind"] == "module":
            t.append("layout=" + (case.get("layout") or "contig"))
            t.append("lens=" + ("None" if case["lens"] is None else case.get("lens_dtype", "i64") +
                                {None: "", "step2": "/strided", "col": "/column", "expand": "/expanded"}[
                                    case.get("lens_layout")]))
            if case["lens"] is not None:
                T_, ln = len(case["logits"]), case["lens"]
                mixed = len(set(ln)) > 1
                t.append("lens values: " + ("all equal" if not mixed else "mixed" +
                                            (", incl. 0" if 0 in ln else "") + (", incl. T" if T_ in ln else "") +
                                            (", some <= longest - 2" if min(ln) <= max(ln) - 2 else "")))
                if mixed and min(ln) <= max(ln) - 2 and case.get("lens_dtype") in ("u8", "i8", "i16"):
                    t.append("lens narrow dtype x finished element with >= 2 frames to go: " + case["lens_dtype"])
                if any(l < T_ for l in ln):
                    t.append("padding frames hold: " + ("NaN" if case.get("pad_nan") else
                                                        "peaky scores" if case.get("pad") else "ordinary scores"))
                if case.get("lm") and case.get("lens_dtype") in ("u8", "i8", "i16"):
                    t.append("lens narrow dtype x fused LM")
                if case.get("gen") == "size" and case.get("lens_dtype") in ("u8", "i8", "i16"):
                    t.append("lens narrow dtype x size class")
        else:
            if case.get("widths") and len(set(case["widths"])) > 1:
                t.append("advance:width-changes-between-calls")
            if case.get("init"):
                t.append("advance:caller-given-state")
                t.append("advance:state layout=" + (case.get("state_layout") or "contig"))
        if case.get("grad"):
            t.append("autograd-on")
        if case.get("beta_int"):
            t.append("beta-as-int")
        if case["kind"] == "module":
            life = case.get("life")
            if not life:
                t.append("object:fresh")
            else:
                t.append("object:re-configured")
                for k, v in sorted(life["ctor"].items()):
                    t.append(f"object:{k} reassigned" + ((" (was None)" if v is None else " (was another LM)") if k == "lm" else ""))
                t.append(f"object:calls before={life.get('warm', 0)}" +
                         (f" input={life.get('warm_input', 'same')}" if life.get("warm") else ""))
                if life.get("between"):
                    t.append("object:call after every reassignment")
                if life.get("mode"):
                    t.append("object:mode=" + ">".join(life["mode"]))
                if life.get("reset"):
                    t.append("object:reset_parameters")
                if life.get("via"):
                    t.append("object:" + life["via"])
        if "elements" in impl:
            T = max([len(el["steps"]) for el in impl["elements"]] + [0])
            t.append(f"T={T}")
            t.append(f"N={len(impl['elements'])}")
            if any(el["len"] == 0 for el in impl["elements"]):
                t.append("len0")
            if any(el["len"] < len(el["steps"]) for el in impl["elements"]):
                t.append("frozen-frames")
            merged = over = zero = False
            for el in impl["elements"]:
                for s in el["steps"][: el["len"]]:
                    i = s["in"]
                    live = [tuple(i["prefixes"][k]) for k in range(len(i["nb"])) if not isinstance(tot_of(i, k), str)]
                    ls = set(live)
                    if any(p[:-1] in ls for p in live if p):
                        merged = True
                    if w > len(live) * (case["V"] + 1) - sum(1 for p in live if p and p[:-1] in ls):
                        over = True
                    if any(F(x) == 0 for x in s["tok"] + [s["blank"]]):
                        zero = True
            ev = set()
            for el in impl["elements"]:
                ev |= trace_events(el)
            t.extend("history:" + e for e in sorted(ev))
            if merged:
                t.append("merge-happened")
            if over:
                t.append("width>live-candidates")
            if zero:
                t.append("zero-probability")
        return t

    def shrink(self, case):
        if case.get("expect_error"):
            return
        if "poison" not in case:    # smaller candidates keep the uninitialised-cell value of the failing run
            case = dict(case, poison=poison_of(case))
        for fld in ("layout", "lens_layout", "lens_dtype", "pad_nan", "state_layout", "grad", "beta_int", "prev_empty",
                    "life"):
            if case.get(fld):
                c = dict(case)
                del c[fld]
                yield c
        life = case.get("life")
        if life:
            for fld in ("via", "reset", "mode", "between"):
                if life.get(fld):
                    yield dict(case, life={k: v for k, v in life.items() if k != fld})
            if life.get("warm"):
                yield dict(case, life=dict(life, warm=life["warm"] - 1))
            if life.get("warm") and life.get("warm_input", "same") != "same":
                yield dict(case, life=dict(life, warm_input="same"))
            if len(life["ctor"]) > 1:
                for k in life["ctor"]:
                    yield dict(case, life=dict(life, ctor={a: b for a, b in life["ctor"].items() if a != k},
                                               order=[a for a in life.get("order", []) if a != k]))
        if case.get("lm") and case["lm"].get("init") is not None:
            yield dict(case, lm=dict(case["lm"], init=None))
        if case.get("lm") and case["lm"].get("dtype"):
            yield dict(case, lm={k: v for k, v in case["lm"].items() if k != "dtype"})
        if case.get("wide"):
            yield {k: v for k, v in case.items() if k != "wide"}
        if case.get("lm") and case["lm"].get("kind", "hash") != "hash":
            yield dict(case, lm=dict(case["lm"], kind="hash"))
        if case.get("widths"):
            c = dict(case)
            del c["widths"]
            yield c
        if case["kind"] == "module":
            T = len(case["logits"])
            N = len(case["logits"][0]) if T else 1
            if N > 1:
                for n in range(N):
                    c = dict(case)
                    c["logits"] = [[fr[n]] for fr in case["logits"]]
                    c["lens"] = None if case["lens"] is None else [case["lens"][n]]
                    c["N"] = 1
                    if case.get("lm") and case["lm"].get("init") is not None:
                        c["lm"] = dict(case["lm"], init=[case["lm"]["init"][n]])
                    if (case.get("judge") or {}).get("elements") is not None:
                        c["judge"] = {k: v for k, v in case["judge"].items() if k != "elements"}
                    yield c
            if T > 0:
                c = dict(case)
                c["logits"] = case["logits"][:-1]
                if case["lens"] is not None:
                    c["lens"] = [min(x, T - 1) for x in case["lens"]]
                yield c
            if case["lens"] is not None:
                c = dict(case)
                c["lens"] = None
                yield c
            if case.get("lm"):
                yield dict(case, lm=None)
        else:
            if len(case["frames"]) > 1:
                c = dict(case, frames=case["frames"][:-1])
                if case.get("widths"):
                    c["widths"] = case["widths"][:-1]
                yield c
            if case["ext_seed"] is not None:
                yield dict(case, ext_seed=None)
        if not case.get("widths"):
            for w in (case["width"] // 2, case["width"] - 1):
                if 1 <= w < case["width"]:
                    yield dict(case, width=w)
        # a smaller vocabulary (size classes): the last token label is dropped, the blank stays the last entry
        if case["V"] > 3 and not case.get("init"):
            for V2 in (case["V"] // 2, case["V"] - 1):
                if V2 < 1 or V2 >= case["V"]:
                    continue
                c = dict(case, V=V2)
                if case["kind"] == "module":
                    c["logits"] = [[row[:V2] + row[-1:] for row in fr] for fr in case["logits"]]
                else:
                    c["frames"] = [{"tok": fr["tok"][:V2], "blank": fr["blank"]} for fr in case["frames"]]
                yield c
        if case["dtype"] in ("f16", "bf16", "f32") and case["stream"] == "exact":
            yield dict(case, dtype="f64")


CHECK = C05()
