"""C19 helpers: the life cycle of an estimator OBJECT (sixth round).

Every stream used to construct an estimator and call it once.  An estimator is an object with documented
public attributes (`proposal`, `func`, `is_log`, `mc_samples`, `cv`, `cv_mean`, `density`,
`self_normalize`, `burn_in`, `initial_sample`, `initial_sample_tries`): user code keeps it, calls it
again, and assigns to those attributes between calls (one sample while training, many while evaluating; a
new density / proposal every step).  What a call returns must be a function of the attribute values AT
THE TIME OF THE CALL and of the draws only:

    an object constructed with other values, called k times, whose attributes are then assigned
        ==  a freshly constructed estimator with those values          (same draws; 1e-12)

A life is described by JSON

    {"set": [attribute names assigned after construction], "warm": number of calls made before the
     assignments (results dropped), "reuse": bool (ONE object serves every tuple of the sample space:
     second, third, ... call on the same object), "alt": {name: the value the object is CONSTRUCTED with,
     where that is data: numbers, family specs, point indices}}

The alternative callbacks (`func`, `cv`, `cv_mean`) are derived from the final ones (affine images), so
that they are valid wherever the final ones are.

torch / pydrobert are imported inside functions only.
"""

# documented public attributes, per estimator (class docstrings / annotations of the pinned tree)
ATTRS = {
    "direct": ["mc_samples", "func", "cv", "cv_mean", "is_log", "proposal"],
    "is": ["mc_samples", "func", "density", "self_normalize", "is_log", "proposal"],
    "enumerate": ["func", "is_log", "proposal"],
    "imh": ["mc_samples", "burn_in", "initial_sample", "initial_sample_tries", "density", "func", "is_log",
            "proposal"],
    "st": ["mc_samples", "func", "is_log", "proposal"],
    "relax": ["mc_samples", "func", "cv", "is_log", "proposal"],
}


def skeletons(rng, kind, reps=1):
    """lives of one estimator kind: every attribute on its own (warm 0 / 1 / 2 cycling, reuse
    alternating), a pure second call (nothing assigned), random pairs / triples, and all attributes at
    once"""
    attrs = ATTRS[kind]
    out = []
    n = rng.randrange(6)
    for _ in range(reps):
        for a in attrs:
            n += 1
            out.append({"set": [a], "warm": n % 3, "reuse": n % 2 == 0})
        out.append({"set": [], "warm": 1 + n % 2, "reuse": True})
        for k in (2, 3):
            if len(attrs) >= k:
                n += 1
                out.append({"set": sorted(rng.sample(attrs, k), key=attrs.index), "warm": n % 3,
                            "reuse": n % 2 == 0})
        out.append({"set": list(attrs), "warm": rng.choice([0, 1]), "reuse": rng.random() < 0.5})
    return out


def describe(life):
    if not life:
        return ""
    s = f"attributes {life['set']} assigned after construction" if life["set"] else "no attribute assigned"
    if life.get("cv_coef"):
        s += "; the REBAR control variate constructed with other coefficients, then edited in place"
    return (f" [{s}; {life.get('warm', 0)} earlier call(s) on the object"
            f"{'; one object for every tuple' if life.get('reuse') else ''}]")


def affine(f, a, c):
    """another callback that is valid wherever f is (same shapes, same domain)"""
    if f is None:
        return None
    return lambda b: a * f(b) + c


def build(cls, order, final, alt, life, before_observed=None):
    """the estimator the case observes.  order: the constructor's parameter names; final: name -> the
    value in force at the observed call; alt: name -> the value the object is constructed with if the
    life assigns that attribute afterwards.  before_observed: what else happens between the earlier calls
    and the observed one (the coefficients of a control-variate module edited in place)"""
    if not life:
        return cls(**{k: final[k] for k in order})
    kw = dict(final)
    for a in life["set"]:
        kw[a] = alt[a]
    est = cls(**{k: kw[k] for k in order})
    for _ in range(life.get("warm", 0)):
        est()
    for a in life["set"]:
        setattr(est, a, final[a])
    if before_observed is not None:
        before_observed()
    return est


def rebar(cls, func, tau, eta, life):
    """the library's REBAR control variate (an nn.Module with parameters `log_temp`, `eta` and the attribute
    `func`).  With `life.cv_coef` the module is CONSTRUCTED with another temperature, coefficient and
    integrand, serves the earlier calls like that, and is then brought to (func, tau, eta) by editing its
    parameters in place and assigning `func` - the optimiser step of the documented use.  -> (module,
    the edit to run before the observed call or None)"""
    import math
    if not (life and life.get("cv_coef")):
        return cls(func, tau, eta), None
    cv = cls(affine(func, -2.0, 3.0), 2.0 * tau, eta + 1.0)

    def edit():
        cv.log_temp.data.fill_(math.log(tau))
        cv.eta.data.fill_(eta)
        cv.func = func
    return cv, edit


def tags(kind, life):
    if not life:
        return []
    t = [f"life:{kind}/assigned={a}" for a in life["set"]] or [f"life:{kind}/nothing assigned"]
    if life.get("cv_coef"):
        t += [f"life:{kind}/REBAR coefficients edited in place"]
    t += [f"life:{kind}/earlier calls={life.get('warm', 0)}",
          f"life:{kind}/{'one object for all tuples' if life.get('reuse') else 'object per tuple'}",
          f"life:attributes assigned={min(len(life['set']), 4)}{'+' if len(life['set']) >= 4 else ''}"]
    return t


def shrink(life):
    """simpler lives"""
    if not life:
        return
    if life.get("cv_coef"):
        yield dict(life, cv_coef=False)
    if life.get("warm"):
        yield dict(life, warm=0)
    if life.get("reuse"):
        yield dict(life, reuse=False)
    if len(life["set"]) > 1:
        for a in life["set"]:
            yield dict(life, set=[a])
            yield dict(life, set=[x for x in life["set"] if x != a])
