"""C12 helpers: tensors <-> the JSON descriptions the Lean driver uses; building directories with
injected defects. No pydrobert import here (torch only, imported lazily)."""
import copy
import os

DTYPES = ["u8", "i8", "i16", "i32", "i64", "f16", "f32", "f64", "bool"]
NARROW = ["u8", "i8", "i16", "i32"]


def torch_dtype(tag):
    import torch
    return {"u8": torch.uint8, "i8": torch.int8, "i16": torch.int16, "i32": torch.int32,
            "i64": torch.int64, "f16": torch.float16, "f32": torch.float32, "f64": torch.float64,
            "bool": torch.bool}[tag]


def dtype_tag(dt):
    import torch
    return {torch.uint8: "u8", torch.int8: "i8", torch.int16: "i16", torch.int32: "i32",
            torch.int64: "i64", torch.float16: "f16", torch.float32: "f32", torch.float64: "f64",
            torch.bool: "bool"}.get(dt, str(dt))


# ------------------------------------------------------------------ description -> tensor
def make_feat(desc):
    import torch
    if not desc["tensor"]:
        return [1.0, 2.0]  # a pickled object that is not a tensor
    n = 1
    for x in desc["dims"]:
        n *= x
    return (torch.arange(n, dtype=torch.float64).reshape(desc["dims"]) % 7).to(torch_dtype(desc["dtype"]))


def make_ali(desc):
    import torch
    if "vec" in desc:
        return torch.tensor(desc["vec"], dtype=torch.int64).reshape(len(desc["vec"])).to(torch_dtype(desc["dtype"]))
    if "flat" in desc:  # not 1-D: the entries in storage order (the info-only report counts them)
        return torch.tensor(desc["flat"], dtype=torch.int64).reshape(desc["nd"]).to(torch_dtype(desc["dtype"]))
    return torch.zeros(desc["nd"], dtype=torch_dtype(desc["dtype"]))


def make_ref(desc):
    import torch
    dt = torch_dtype(desc["dtype"])
    if "d1" in desc:
        return torch.tensor(desc["d1"], dtype=torch.int64).reshape(len(desc["d1"])).to(dt)
    if "d2" in desc:
        return torch.tensor(desc["d2"], dtype=torch.int64).reshape(len(desc["d2"]), 3).to(dt)
    if "d2w" in desc:
        return torch.zeros(desc["d2w"], dtype=dt)
    return torch.zeros(desc["nd"], dtype=dt)


# ------------------------------------------------------------------ tensor -> description
def ints(t):
    return [int(x) for x in t.tolist()]


def desc_feat(x):
    import torch
    if not isinstance(x, torch.Tensor):
        return {"tensor": False, "dtype": "f32", "dev": "cpu", "dims": []}
    return {"tensor": True, "dtype": dtype_tag(x.dtype), "dev": x.device.type, "dims": list(x.shape)}


def desc_ali(x):
    d = {"dtype": dtype_tag(x.dtype), "dev": x.device.type}
    if x.dim() == 1:
        d["vec"] = ints(x)
    else:
        d["nd"] = list(x.shape)
        d["flat"] = ints(x.flatten())
    return d


def desc_ref(x):
    d = {"dtype": dtype_tag(x.dtype), "dev": x.device.type}
    if x.dim() == 1:
        d["d1"] = ints(x)
    elif x.dim() == 2 and x.size(1) == 3:
        d["d2"] = [[int(v) for v in row] for row in x.tolist()]
    elif x.dim() == 2:
        d["d2w"] = list(x.shape)
    else:
        d["nd"] = list(x.shape)
    return d


# ------------------------------------------------------------------ file system
SUBDIRS = ("feat", "ali", "ref")


def fname(layout, name):
    return layout.get("prefix", "") + name + layout.get("suffix", ".pt")


def subname(layout, s):
    """Name of the sub-directory the data set is told to use for `s` (None: told not to look)."""
    return layout.get("sub", {}).get(s, s)


def matches(layout, nm):
    return nm.startswith(layout.get("prefix", "")) and nm.endswith(layout.get("suffix", ".pt"))


def write_dir(root, case):
    """Write the case's files. Sub-directory `ali`/`ref` exists iff case['dirs'] lists it (under the
    name the layout gives it; a sub-directory the data set is told not to look at keeps its default
    name). `layout.stray` = [[directory name, file name], ...]: junk files that must be ignored and
    left alone (they never match prefix AND suffix inside a directory in use)."""
    import torch
    layout = case.get("layout", {})
    for s in case["dirs"]:
        os.makedirs(os.path.join(root, subname(layout, s) or s), exist_ok=True)
    for u in case["utts"]:
        for s, mk in (("feat", make_feat), ("ali", make_ali), ("ref", make_ref)):
            if u.get(s) is not None and s in case["dirs"]:
                torch.save(mk(u[s]), os.path.join(root, subname(layout, s) or s, fname(layout, u["name"])))
    if "" in layout.get("sub", {}).values():
        # a sub-directory named "" is "do not look", NOT "look in the data directory itself": a file
        # with a matching name at the top level must stay unseen
        with open(os.path.join(root, fname(layout, "zz")), "wb") as f:
            f.write(b"not a tensor file")
    for s, nm in layout.get("stray", []):
        os.makedirs(os.path.join(root, s), exist_ok=True)
        with open(os.path.join(root, s, nm), "wb") as f:
            f.write(b"not a tensor file")


def discovered(case):
    """Independent statement of SpectDataSet.find_utt_ids: ids with a file in every sub-directory in
    use, restricted to `subset_ids` when that is non-empty; `ali/`, `ref/` are in use iff the data set
    was told to look (a name was given; for `ali/` also: alignments are not suppressed), they exist and
    hold at least one matching file."""
    dirs = case["dirs"]
    layout = case.get("layout", {})
    cfg = case.get("cfg", {})
    have = {s: {u["name"] for u in case["utts"] if u.get(s) is not None and s in dirs} for s in SUBDIRS}
    # `if ali_subdir and ...`: None and the empty string both mean "do not look"
    look = {"ali": bool(subname(layout, "ali")) and not cfg.get("suppress_alis", False),
            "ref": bool(subname(layout, "ref"))}
    ids = set(have["feat"])
    if layout.get("subset"):
        ids &= set(layout["subset"])
    used = {}
    for s in ("ali", "ref"):
        used[s] = bool(look[s] and have[s])
        if used[s]:
            ids &= have[s]
    return sorted(ids), used


def listing(root, case):
    """What os.listdir shows the data set (input of the Lean model of the discovery)."""
    layout = case.get("layout", {})
    cfg = case.get("cfg", {})
    out = {"prefix": layout.get("prefix", ""), "suffix": layout.get("suffix", ".pt"),
           "subset": list(layout.get("subset", []))}
    for s in SUBDIRS:
        nm = subname(layout, s)
        p = os.path.join(root, nm) if nm else None  # None or "": the data set does not look
        if s == "ali" and cfg.get("suppress_alis", False):
            p = None
        out[s] = sorted(os.listdir(p)) if p is not None and os.path.isdir(p) else None
    if out["feat"] is None:
        out["feat"] = []
    return out


def snapshot(root, case):
    """{subdir: {filename: bytes}} of everything below root (for 'untouched' comparisons)."""
    out = {}
    for s in sorted(os.listdir(root)):
        p = os.path.join(root, s)
        if os.path.isdir(p):
            out[s] = {}
            for nm in sorted(os.listdir(p)):
                with open(os.path.join(p, nm), "rb") as f:
                    out[s][nm] = f.read()
    return out


def read_utts(root, case, ids, used):
    """Canonical description of the discovered utterances as they are on disk now."""
    import torch
    layout = case.get("layout", {})
    res = []
    for name in ids:
        fn = fname(layout, name)
        f = torch.load(os.path.join(root, subname(layout, "feat"), fn))
        u = {"feat": desc_feat(f), "ali": None, "ref": None}
        if used["ali"]:
            u["ali"] = desc_ali(torch.load(os.path.join(root, subname(layout, "ali"), fn)))
        if used["ref"]:
            u["ref"] = desc_ref(torch.load(os.path.join(root, subname(layout, "ref"), fn)))
        res.append(u)
    return res


def feat_digest(root, case, ids):
    import torch
    layout = case.get("layout", {})
    out = []
    for name in ids:
        f = torch.load(os.path.join(root, subname(layout, "feat"), fname(layout, name)))
        out.append(repr(f.tolist()) if isinstance(f, torch.Tensor) else repr(f))
    return out


# ------------------------------------------------------------------ generators
HARD_NAMES = ["u10", "u2", "B", "a", "p-x", "x.pt", "-", "u_1", "\u00e9t\u00e9", "Z9", ".pt.pt", "p-"]


def base_dir(rng, n, has_ali, ref_kind, max_T=4, names=None):
    """A well-formed directory of n utterances (named u0, u1, ... unless `names` is given)."""
    F = rng.choice([1, 2, 3])
    fdt = rng.choice(["f32", "f32", "f64", "i64"])
    utts = []
    for i in range(n):
        T = rng.randrange(0, max_T + 1)
        u = {"name": names[i] if names else f"u{i}", "feat": {"tensor": True, "dtype": fdt, "dev": "cpu", "dims": [T, F]},
             "ali": None, "ref": None}
        if has_ali:
            u["ali"] = {"dtype": "i64", "dev": "cpu", "vec": [rng.randrange(0, 3) for _ in range(T)]}
        if ref_kind == 1:
            u["ref"] = {"dtype": "i64", "dev": "cpu", "d1": [rng.randrange(0, 4) for _ in range(rng.randrange(0, 4))]}
        elif ref_kind == 2:
            rows = []
            for _ in range(rng.randrange(0, 4)):
                tok = rng.randrange(0, 4)
                c = rng.random()
                if c < 0.3:
                    rows.append([tok, -1, -1])
                elif c < 0.4:
                    rows.append([tok, -rng.randrange(1, 4), -rng.randrange(1, 4)])
                else:
                    s = rng.randrange(0, T + 1)
                    e = rng.randrange(s, T + 1)
                    rows.append([tok, s, e])
            u["ref"] = {"dtype": "i64", "dev": "cpu", "d2": rows}
        utts.append(u)
    dirs = ["feat"] + (["ali"] if has_ali else []) + (["ref"] if ref_kind else [])
    return {"utts": utts, "dirs": dirs}


def rand_layout(rng, case, cli=False, level=2):
    """A non-default way of pointing a data set at the directory `case` (utts/dirs): file prefix and
    suffix, sub-directory names, a `subset_ids` restriction, stray files that must be ignored, decoy
    directories under the default names. Renames the utterances (sorted order != creation order, an
    empty id, ids containing the prefix/suffix). `cli`: only what the command line can express."""
    lay = {}
    lay["prefix"] = rng.choice(["", "", "p-", "x.", "feat"])
    lay["suffix"] = rng.choice([".pt", ".pt", ".x", "", ".npy.pt"])
    n = len(case["utts"])
    pool = list(HARD_NAMES)
    if lay["prefix"]:  # (torch.save refuses a file whose name is only an extension)
        pool.append("")
    if level >= 1:
        rng.shuffle(pool)
        for u, nm in zip(case["utts"], pool):
            u["name"] = nm
    sub = {}
    for s, alts in (("feat", ["feats", "fbank"]), ("ali", ["pdf_ali", "ref"]), ("ref", ["trans", "ali"])):
        if rng.random() < 0.4:
            sub[s] = rng.choice(alts)
    # never the same directory twice
    if len({sub.get(s, s) for s in SUBDIRS}) < 3:
        sub = {"ali": "ref", "ref": "ali"} if rng.random() < 0.5 else {}
    if rng.random() < 0.15:
        s_none = rng.choice(["ali", "ref"])
        # the files of a sub-directory the data set is told not to look at stay under the default name;
        # "not to look" is None or the empty string (the command line can only say the latter)
        if s_none not in [v for k, v in sub.items() if k != s_none]:
            sub[s_none] = "" if cli else rng.choice([None, ""])
    if sub:
        lay["sub"] = sub
    names = [u["name"] for u in case["utts"]]
    if not cli and names and rng.random() < 0.4:
        k = rng.randrange(1, len(names) + 1)
        lay["subset"] = sorted(rng.sample(names, k)) + (["nope"] if rng.random() < 0.5 else [])
    # strays: right prefix / wrong suffix, wrong prefix / right suffix, neither; never both
    stray = []
    cands = [lay["prefix"] + "zz.notes", "README", "q" + "zz" + lay["suffix"], lay["prefix"] + "u0.tmp",
             "." + lay["prefix"] + "u0" + lay["suffix"] + "~"]
    for s in SUBDIRS:
        d = sub.get(s, s)
        if not d or s not in case["dirs"]:
            continue
        # feat/ always holds a prefix-only and a suffix-only file (an option that is not honoured lets
        # them in); the companions a random selection
        pick = cands[:1] + cands[2:3] + rng.sample(cands, 1) if s == "feat" else rng.sample(cands, rng.randrange(0, 3))
        for nm in pick:
            if not matches(lay, nm) and [d, nm] not in stray:
                stray.append([d, nm])
    # decoys: a directory with the DEFAULT name holding a junk file with a matching name, when the data
    # set is pointed elsewhere (reading or writing there would be noticed)
    taken = {sub.get(s, s) or s for s in SUBDIRS}
    for s in SUBDIRS:
        if s in sub and s not in taken and rng.random() < 0.7:
            stray.append([s, fname(lay, names[0] if names else "u0")])
    lay["stray"] = stray
    return lay


def big_classes(rng, case):
    """Re-label alignment classes and token ids with indices of 1, 2 and 3 decimal digits (the report
    zero-pads its keys to the width of the largest)."""
    top = rng.choice([9, 10, 11, 99, 100, 101, 120])
    m = {0: 0, 1: rng.choice([1, top // 2 + 1]), 2: top, 3: rng.choice([top - 1, 3])}
    for u in case["utts"]:
        a, r = u.get("ali"), u.get("ref")
        if a is not None and "vec" in a:
            a["vec"] = [m.get(x, x) for x in a["vec"]]
        if r is not None and "d1" in r:
            r["d1"] = [m.get(x, x) for x in r["d1"]]
        if r is not None and "d2" in r:
            r["d2"] = [[m.get(row[0], row[0])] + row[1:] for row in r["d2"]]


def T_of(u):
    d = u["feat"]["dims"]
    return d[0] if d else 0


def ensure_row(rng, u):
    if not u["ref"]["d2"]:
        u["ref"]["d2"].append([rng.randrange(0, 4), -1, -1])
    return rng.randrange(len(u["ref"]["d2"]))


# every defect: (name, needs, function(rng, dirdesc, utt, k)); k in 1..4 is the size of length defects
def _d_feat_dtype(rng, d, u, k):
    u["feat"]["dtype"] = rng.choice([x for x in ("f32", "f64", "i64", "i32", "f16") if x != u["feat"]["dtype"]])


def _d_feat_nd(rng, d, u, k):
    u["feat"]["dims"] = rng.choice([[T_of(u)], [T_of(u), 2, 1], []])


def _d_feat_width(rng, d, u, k):
    if len(u["feat"]["dims"]) == 2:
        u["feat"]["dims"][1] += k


def _d_feat_nontensor(rng, d, u, k):
    u["feat"]["tensor"] = False


def _d_ali_dtype(rng, d, u, k):
    u["ali"]["dtype"] = rng.choice(["u8", "i8", "i16", "i32", "f32", "f64", "bool", "f16"])
    if u["ali"]["dtype"] == "bool":
        for k_ in ("vec", "flat"):
            if k_ in u["ali"]:
                u["ali"][k_] = [min(x, 1) for x in u["ali"][k_]]


def _d_ali_nd(rng, d, u, k):
    # (T, 2) with runs that cross the row boundary: unique_consecutive flattens in the info-only mode
    shape = rng.choice([[T_of(u), 1], [], [1, T_of(u)], [T_of(u), 2], [2, 2]])
    n = 1
    for x in shape:
        n *= x
    u["ali"] = {"dtype": u["ali"]["dtype"], "dev": "cpu", "nd": shape, "flat": [rng.randrange(0, 3) for _ in range(n)]}
    if u["ali"]["dtype"] == "bool":
        u["ali"]["flat"] = [min(x, 1) for x in u["ali"]["flat"]]


def _d_ali_long(rng, d, u, k):
    if "vec" in u["ali"]:
        u["ali"]["vec"] = u["ali"]["vec"] + [rng.randrange(0, 3) for _ in range(k)]


def _d_ali_short(rng, d, u, k):
    if "vec" in u["ali"] and len(u["ali"]["vec"]) > 0:
        u["ali"]["vec"] = u["ali"]["vec"][:max(0, len(u["ali"]["vec"]) - k)]


def _d_ref_dtype(rng, d, u, k):
    u["ref"]["dtype"] = rng.choice(["u8", "i8", "i16", "i32", "f32", "f64", "bool", "f16"])
    if u["ref"]["dtype"] in ("bool", "u8"):
        # keep the stored values representable: what is on disk is read back before the model sees it
        pass


def _d_ref_mixed(rng, d, u, k):
    r = u["ref"]
    if "d2" in r:
        u["ref"] = {"dtype": r["dtype"], "dev": "cpu", "d1": [row[0] for row in r["d2"]]}
    elif "d1" in r:
        u["ref"] = {"dtype": r["dtype"], "dev": "cpu", "d2": [[t, -1, -1] for t in r["d1"]]}


def _d_ref_width(rng, d, u, k):
    r = u["ref"]
    n = len(r.get("d2", r.get("d1", [])))
    u["ref"] = {"dtype": r["dtype"], "dev": "cpu", "d2w": [rng.choice([n, 0, 2]), rng.choice([1, 2, 4])]}


def _d_ref_nd(rng, d, u, k):
    u["ref"] = {"dtype": u["ref"]["dtype"], "dev": "cpu", "nd": rng.choice([[], [1, 3, 1], [0, 3, 2]])}


def _d_half_start(rng, d, u, k):
    if "d2" in u["ref"]:
        i = ensure_row(rng, u)
        u["ref"]["d2"][i][1:] = [-rng.randrange(1, 3), rng.randrange(0, T_of(u) + 3)]


def _d_half_end(rng, d, u, k):
    if "d2" in u["ref"]:
        i = ensure_row(rng, u)
        u["ref"]["d2"][i][1:] = [rng.randrange(0, T_of(u) + 3), -rng.randrange(1, 3)]


def _d_overshoot(rng, d, u, k):
    if "d2" in u["ref"]:
        i = ensure_row(rng, u)
        T = T_of(u)
        u["ref"]["d2"][i][1:] = [rng.randrange(0, T + 1), T + k]


def _d_overshoot_start(rng, d, u, k):
    # the start lies beyond T as well: not repairable whatever the tolerance
    if "d2" in u["ref"]:
        i = ensure_row(rng, u)
        T = T_of(u)
        s = T + rng.randrange(1, k + 1)
        u["ref"]["d2"][i][1:] = [s, rng.randrange(s, T + k + 1)]


def _d_reversed(rng, d, u, k):
    if "d2" in u["ref"]:
        i = ensure_row(rng, u)
        e = rng.randrange(0, T_of(u) + 2)
        u["ref"]["d2"][i][1:] = [e + k, e]


def _d_neg_token(rng, d, u, k):
    r = u["ref"]
    if "d2" in r:
        i = ensure_row(rng, u)
        r["d2"][i][0] = -rng.randrange(1, 3)
    elif "d1" in r:
        if not r["d1"]:
            r["d1"].append(0)
        r["d1"][rng.randrange(len(r["d1"]))] = -rng.randrange(1, 3)


def _d_missing_ali(rng, d, u, k):
    u["ali"] = None


def _d_missing_ref(rng, d, u, k):
    u["ref"] = None


DEFECTS = [
    ("feat_dtype", "feat", _d_feat_dtype), ("feat_nd", "feat", _d_feat_nd),
    ("feat_width", "feat", _d_feat_width), ("feat_nontensor", "feat", _d_feat_nontensor),
    ("ali_dtype", "ali", _d_ali_dtype), ("ali_nd", "ali", _d_ali_nd),
    ("ali_long", "ali", _d_ali_long), ("ali_short", "ali", _d_ali_short),
    ("ref_dtype", "ref", _d_ref_dtype), ("ref_mixed", "ref", _d_ref_mixed),
    ("ref_width", "ref", _d_ref_width), ("ref_nd", "ref", _d_ref_nd),
    ("half_start", "ref2", _d_half_start), ("half_end", "ref2", _d_half_end),
    ("overshoot", "ref2", _d_overshoot), ("overshoot_start", "ref2", _d_overshoot_start),
    ("reversed", "ref2", _d_reversed), ("neg_token", "ref", _d_neg_token),
    ("missing_ali", "ali", _d_missing_ali), ("missing_ref", "ref", _d_missing_ref),
]
DEFECT_NAMES = [d[0] for d in DEFECTS]


def applicable(name, need, has_ali, ref_kind):
    if need == "ali":
        return has_ali
    if need == "ref":
        return ref_kind != 0
    if need == "ref2":
        return ref_kind == 2
    return True


def inject(rng, d, names, k, where=None):
    """Apply the named defects, each to one utterance (chosen by rng, or `where`)."""
    d = copy.deepcopy(d)
    tbl = {n: f for n, _, f in DEFECTS}
    applied = []
    for nm in names:
        if not d["utts"]:
            break
        i = where if where is not None else rng.randrange(len(d["utts"]))
        u = d["utts"][i]
        need = [x for x in DEFECTS if x[0] == nm][0][1]
        tgt = {"feat": "feat", "ali": "ali", "ref": "ref", "ref2": "ref"}[need]
        if u.get(tgt) is None:
            continue
        tbl[nm](rng, d, u, k)
        applied.append(f"{nm}@{i}")
    d["defects"] = applied
    return d
