"""C05 — generator aids (no oracle in here).

`history_events` runs the textbook prefix-beam recursion in plain floats.  It is used ONLY to steer the
case generator towards *classes of prune / merge histories* (which prefixes fall out of the beam, which
re-enter it, which extensions are merged into a longer prefix that is still there); what the search must
report for a generated case is decided by the Lean model and specification, never by this file.

History classes (all about the beam as a set of prefixes, frame by frame):

* gap     — after a frame the beam holds q and a strict extension r of q, but some prefix strictly
            between them is missing (the beam is not prefix-closed below r);
* refill  — a prefix that was not in the beam enters it as a fresh extension while a strict extension of
            it is in the beam too (so the step has to discover "new slot is a prefix of old slot");
* remerge — an extension of a refilled prefix (or of any prefix below a gap) is merged into a prefix that
            is already in the beam, with positive mass;
* evict   — a prefix with positive mass is pruned although one of its strict extensions is kept.
"""
import math


def softmax(row):
    m = max(row)
    if m == float("-inf"):
        return [1.0 / len(row)] * len(row)
    e = [math.exp(x - m) for x in row]
    s = sum(e)
    return [x / s for x in e]


def history_events(frames, widths, V, ext=None):
    """frames: rows of V+1 probabilities (blank last); widths: per-frame beam widths;
    ext(t, prefix, v) -> extension probability (default: the token probability).
    Returns the set of history classes the run goes through."""
    beam = {(): (0.0, 1.0)}
    below_gap = set()     # prefixes in the beam that entered while a strict extension of them was there
    ev = set()
    for t, (p, width) in enumerate(zip(frames, widths)):
        cand = {}
        fresh = set()
        for pref, (nb, b) in beam.items():
            o = cand.get(pref, (0.0, 0.0))
            cand[pref] = (o[0] + (nb * p[pref[-1]] if pref else 0.0), o[1] + (nb + b) * p[V])
            for v in range(V):
                e = p[v] if ext is None else ext(t, pref, v)
                m = b * e if (pref and pref[-1] == v) else (nb + b) * e
                q = pref + (v,)
                o = cand.get(q, (0.0, 0.0))
                cand[q] = (o[0] + m, o[1])
                if q in beam:
                    if pref in below_gap and m > 0:
                        ev.add("remerge")
                else:
                    fresh.add(q)
        items = sorted(cand.items(), key=lambda kv: -(kv[1][0] + kv[1][1]))
        new = dict(items[:width])
        for q, (nb, b) in items[width:]:
            if nb + b > 0 and any(len(r) > len(q) and r[:len(q)] == q for r in new):
                ev.add("evict")
        entered = set()
        for q in new:
            longer = [r for r in new if len(r) > len(q) and r[:len(q)] == q]
            if q in fresh and longer:
                ev.add("refill")
                entered.add(q)
            for r in longer:
                if any(r[:L] not in new for L in range(len(q) + 1, len(r))):
                    ev.add("gap")
        below_gap = {q for q in below_gap if q in new} | entered
        beam = new
    return ev


def peaky_rows(rng, V, T):
    """T probability rows over {0..V-1, blank}: one dominant symbol per frame (near one-hot), dominant
    symbols follow short patterns with repeated tokens (a a b a, a blank a, ...), the remaining mass is
    spread unevenly (some symbols next to nothing)."""
    syms = list(range(V + 1))
    pat = []
    cur = rng.choice(syms)
    for _ in range(T):
        r = rng.random()
        if r < 0.25:
            pass                                    # repeat the dominant symbol
        elif r < 0.45 and len(pat) >= 2:
            cur = pat[-2]                           # go back to the one before (a b a)
        else:
            cur = rng.choice(syms)
        pat.append(cur)
    rows = []
    for d in pat:
        top = rng.choice([0.5, 0.6, 0.7, 0.8, 0.9, 0.95, 0.99])
        rest = [rng.choice([1e-3, 0.02, 0.1, 0.3, 1.0, 1.0]) * rng.random() for _ in syms]
        rest[d] = 0.0
        s = sum(rest) or 1.0
        row = [(1.0 - top) * x / s for x in rest]
        row[d] = top if sum(rest) else 1.0
        rows.append(row)
    return rows


def peaky_numerators(rng, V, T, denom):
    """The same idea on the exact grid k/denom: a dominant numerator, small (possibly zero) others;
    the row sums to at most denom."""
    rows = []
    pat = []
    cur = rng.randrange(V + 1)
    for _ in range(T):
        r = rng.random()
        if r < 0.25:
            pass
        elif r < 0.45 and len(pat) >= 2:
            cur = pat[-2]
        else:
            cur = rng.randrange(V + 1)
        pat.append(cur)
    for d in pat:
        top = rng.choice([denom // 2, (5 * denom) // 8, (3 * denom) // 4, (7 * denom) // 8, denom - V - 1])
        left = denom - top
        parts = [0] * (V + 1)
        for i in range(V + 1):
            if i == d:
                continue
            x = rng.choice([0, 1, 1, 2, left // 2, left])
            x = min(x, left)
            parts[i] = x
            left -= x
        parts[d] = top
        rows.append(parts)
    return rows


def steer(rng, make, want, tries):
    """Rejection sampling on the history class: draw with `make()` -> (payload, events) until every class
    of `want` shows (at most `tries` draws); otherwise the draw that showed most of them."""
    best, score = None, -1
    for _ in range(tries):
        cur = make()
        k = len(cur[1] & want)
        if k > score:
            best, score = cur, k
        if k == len(want):
            break
    return best
