"""C05 — generator aids (no oracle in here).

`history_events` runs the textbook prefix-beam recursion in plain floats.  It is used ONLY to steer the
case generator towards *classes of prune / merge histories* (which prefixes fall out of the beam, which
re-enter it, which extensions are merged into a longer prefix that is still there); what the search must
report for a generated case is decided by the Lean model and specification, never by this file.

History classes (all about the beam as a set of prefixes, frame by frame):

* gap     — after a frame the beam holds q and a strict extension r of q, but some prefix strictly
            between them is missing (the beam is not prefix-closed below r);
* refill  — a prefix that was not in the beam enters it as a fresh extension while a strict extension of
            it is in the beam too (so the step has to discover "new slot is a prefix of old slot");
* remerge — an extension of a refilled prefix (or of any prefix below a gap) is merged into a prefix that
            is already in the beam, with positive mass;
* evict   — a prefix with positive mass is pruned although one of its strict extensions is kept.
"""
import math


def softmax(row):
    m = max(row)
    if m == float("-inf"):
        return [1.0 / len(row)] * len(row)
    e = [math.exp(x - m) for x in row]
    s = sum(e)
    return [x / s for x in e]


def history_events(frames, widths, V, ext=None):
    """frames: rows of V+1 probabilities (blank last); widths: per-frame beam widths;
    ext(t, prefix, v) -> extension probability (default: the token probability).
    Returns the set of history classes the run goes through."""
    beam = {(): (0.0, 1.0)}
    below_gap = set()     # prefixes in the beam that entered while a strict extension of them was there
    ev = set()
    for t, (p, width) in enumerate(zip(frames, widths)):
        cand = {}
        fresh = set()
        for pref, (nb, b) in beam.items():
            o = cand.get(pref, (0.0, 0.0))
            cand[pref] = (o[0] + (nb * p[pref[-1]] if pref else 0.0), o[1] + (nb + b) * p[V])
            for v in range(V):
                e = p[v] if ext is None else ext(t, pref, v)
                m = b * e if (pref and pref[-1] == v) else (nb + b) * e
                q = pref + (v,)
                o = cand.get(q, (0.0, 0.0))
                cand[q] = (o[0] + m, o[1])
                if q in beam:
                    if pref in below_gap and m > 0:
                        ev.add("remerge")
                else:
                    fresh.add(q)
        items = sorted(cand.items(), key=lambda kv: -(kv[1][0] + kv[1][1]))
        new = dict(items[:width])
        for q, (nb, b) in items[width:]:
            if nb + b > 0 and any(len(r) > len(q) and r[:len(q)] == q for r in new):
                ev.add("evict")
        entered = set()
        for q in new:
            longer = [r for r in new if len(r) > len(q) and r[:len(q)] == q]
            if q in fresh and longer:
                ev.add("refill")
                entered.add(q)
            for r in longer:
                if any(r[:L] not in new for L in range(len(q) + 1, len(r))):
                    ev.add("gap")
        below_gap = {q for q in below_gap if q in new} | entered
        beam = new
    return ev


def peaky_rows(rng, V, T):
    """T probability rows over {0..V-1, blank}: one dominant symbol per frame (near one-hot), dominant
    symbols follow short patterns with repeated tokens (a a b a, a blank a, ...), the remaining mass is
    spread unevenly (some symbols next to nothing)."""
    syms = list(range(V + 1))
    pat = []
    cur = rng.choice(syms)
    for _ in range(T):
        r = rng.random()
        if r < 0.25:
            pass                                    # repeat the dominant symbol
        elif r < 0.45 and len(pat) >= 2:
            cur = pat[-2]                           # go back to the one before (a b a)
        else:
            cur = rng.choice(syms)
        pat.append(cur)
    rows = []
    for d in pat:
        top = rng.choice([0.5, 0.6, 0.7, 0.8, 0.9, 0.95, 0.99])
        rest = [rng.choice([1e-3, 0.02, 0.1, 0.3, 1.0, 1.0]) * rng.random() for _ in syms]
        rest[d] = 0.0
        s = sum(rest) or 1.0
        row = [(1.0 - top) * x / s for x in rest]
        row[d] = top if sum(rest) else 1.0
        rows.append(row)
    return rows


def peaky_numerators(rng, V, T, denom):
    """The same idea on the exact grid k/denom: a dominant numerator, small (possibly zero) others;
    the row sums to at most denom."""
    rows = []
    pat = []
    cur = rng.randrange(V + 1)
    for _ in range(T):
        r = rng.random()
        if r < 0.25:
            pass
        elif r < 0.45 and len(pat) >= 2:
            cur = pat[-2]
        else:
            cur = rng.randrange(V + 1)
        pat.append(cur)
    for d in pat:
        top = rng.choice([denom // 2, (5 * denom) // 8, (3 * denom) // 4, (7 * denom) // 8, denom - V - 1])
        left = denom - top
        parts = [0] * (V + 1)
        for i in range(V + 1):
            if i == d:
                continue
            x = rng.choice([0, 1, 1, 2, left // 2, left])
            x = min(x, left)
            parts[i] = x
            left -= x
        parts[d] = top
        rows.append(parts)
    return rows


def steer(rng, make, want, tries):
    """Rejection sampling on the history class: draw with `make()` -> (payload, events) until every class
    of `want` shows (at most `tries` draws); otherwise the draw that showed most of them."""
    best, score = None, -1
    for _ in range(tries):
        cur = make()
        k = len(cur[1] & want)
        if k > score:
            best, score = cur, k
        if k == len(want):
            break
    return best


# ----------------------------------------------------------------------------- floating dtypes
def round_dtype(x, dtype):
    """a python float that the floating dtype represents exactly (nearest for f16 / f32, nearest-even on the
    float32 bit pattern for bf16); -inf stays -inf.  Cases carry such floats, so the tensor the harness builds
    holds exactly the numbers of the case and the oracle can treat them as exact rationals."""
    import struct
    if x == float("-inf") or dtype == "f64":
        return x
    if dtype == "f32":
        return struct.unpack("f", struct.pack("f", x))[0]
    if dtype == "f16":
        return struct.unpack("e", struct.pack("e", max(-60000.0, min(60000.0, x))))[0]
    if dtype == "bf16":
        (b,) = struct.unpack("I", struct.pack("f", x))
        b = (b + 0x7FFF + ((b >> 16) & 1)) & 0xFFFF0000
        return struct.unpack("f", struct.pack("I", b))[0]
    raise ValueError(dtype)


# how far apart the scores of one frame may lie before the smallest probability leaves the dtype's normal
# range (exp(-RANGE) is still a normal number of the dtype, except f16 where softmax works in float32 inside)
RANGE = {"f16": 12.0, "bf16": 80.0, "f32": 80.0, "f64": 600.0}
OFFSET = {"f16": [100.0, -100.0, 1000.0], "bf16": [100.0, -1000.0, 30000.0], "f32": [100.0, -1000.0, 30000.0],
          "f64": [100.0, -1000.0, 1e6, -1e9]}


def widen_rows(rng, rows, dtype):
    """LARGE-MAGNITUDE / WIDE-RANGE scores: the rows of one batch element (lists of V+1 logits) are transformed,
    row by row, by one of: a large common offset (softmax is shift invariant: nothing may change but the float
    grid gets coarser), a spread of the row's deviations from its maximum up to the dtype's exponent range (the
    smallest probabilities come close to the smallest normal number: any detour through a narrower dtype
    flushes them), a label ruled out by -inf.  Returns the new rows and the set of classes applied."""
    out, cls = [], set()
    for row in rows:
        row = list(row)
        r = rng.random()
        fin = [x for x in row if x != float("-inf")]
        if r < 0.3 or not fin:
            pass
        elif r < 0.55:
            c = rng.choice(OFFSET[dtype])
            row = [x + c for x in row]
            cls.add("offset")
        elif r < 0.85:
            m = max(fin)
            span = (m - min(fin)) or 1.0
            k = RANGE[dtype] * rng.choice([0.1, 0.3, 0.6, 0.9, 1.0]) / span
            row = [x if x == float("-inf") else m + (x - m) * k for x in row]
            cls.add("spread")
        else:
            if len(fin) > 1:
                row[rng.choice([i for i, x in enumerate(row) if x != float("-inf")])] = float("-inf")
                cls.add("-inf")
        out.append([round_dtype(x, dtype) for x in row])
    return out, cls
