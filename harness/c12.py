"""C12 — data-directory validation accepts exactly well-formed directories; fixes stick.

Three kinds of cases:

* ``history``: a directory (<= 4 utterances, written with torch.save under /tmp) with injected
  defects, and a sequence of ``validate_spect_data_set(data_set, fix)`` calls on it. After every call
  the accept/reject class and the FULL content of the directory are read back and compared with the
  Lean model (`run`); the property is evaluated on the implementation's own directories with the
  Lean spec as oracle (`WellFormed`, `repair`).
* ``info``: the same directories through the command ``get-torch-spect-data-dir-info`` with
  ``--strict`` / ``--fix k`` / neither; the report is compared with the model's one-pass report and
  with the spec's recount of what the implementation left on disk.
* ``sos_eos``: ``SpectDataSet`` / ``LangDataSet`` loading a reference with sos/eos configured and
  writing it back as a hypothesis.

The Lean side never sees a file: the harness reads every tensor back from disk (also the initial
state, so dtype wrap-arounds such as -1 -> 255 in uint8 are what the model is given).
"""
import contextlib
import copy
import io
import itertools
import os
import shutil
import tempfile
import warnings

from common.framework import PropertyCheck

import c12_dirs as D

TOLS = [None, 0, 1, 2, 3]


def norm_fix(f):
    """The python-level `fix` argument -> the model's Option Nat (True = 1, False = None)."""
    if f is True:
        return 1
    if f is False:
        return None
    return f


@contextlib.contextmanager
def tmpdir():
    d = tempfile.mkdtemp(prefix="verif-c12-", dir="/tmp")
    try:
        yield d
    finally:
        shutil.rmtree(d, ignore_errors=True)


def file_status(before, after, expected):
    """Per file of one utterance: 'same' | 'repaired' | 'other'."""
    out = {}
    for s in D.SUBDIRS:
        if after[s] == before[s]:
            out[s] = "same"
        elif after[s] == expected[s]:
            out[s] = "repaired"
        else:
            out[s] = "other"
    return out


class C12(PropertyCheck):
    pid = "C12"
    title = "Data-directory validation accepts exactly well-formed directories; fixes stick"
    rule = ("directories of <= 4 utterances written with torch.save; every single injected defect x every "
            "tolerance (None,0..3) x every defect size 1..4 enumerated, plus random subsets of the 20 defects "
            "(dtype, ndim, width, non-tensor, alignment +-k, mixed 1-D/2-D, (R,w!=3), half-open start/end, "
            "overshoot k, start beyond T, reversed, negative token, missing files) and validate/fix/validate "
            "histories (tolerances None, 0..3, 7, 100, True, False; the booleans on every repairable defect); "
            "every view configuration of the validating data set (sos/eos by params or keyword, tokens_only, "
            "suppress_alis, suppress_uttids, delta_order, do_mvn, ContextWindowDataSet) and every way of "
            "pointing it at the files (5 prefixes x 5 suffixes, renamed / None sub-directories, subset_ids by "
            "params or keyword, stray and decoy files, ids that sort differently from creation order, the empty "
            "id); the info command in modes none/--strict/--fix [k] with all its options (--file-prefix/"
            "-suffix, --*-subdir, output file or stdout) and class indices of 1..3 digits; reading every "
            "utterance through SpectDataSet/LangDataSet and write_hyp (by index / id / custom name, default or "
            "given directory, any dtype) / write_pdf; sos/eos round trips over all transcripts of length <= 2 "
            "(1-D and 2-D, empty included); hypothesis stripping incl. sos == eos; write-back timing (a repairable "
            "and a fatal defect in the same file / utterance / a later utterance, negative token after the save); "
            "alignments that are not 1-D through the info-only mode (flattened) and --strict; sub-directory names "
            "None and ''. non-trivial: >= 1 injected "
            "defect or all three sub-directories in use; distinct by the whole case")
    assumptions = [
        "no GPU in the sandbox: the CUDA clauses (condition 1, repair 1) exist only as a device tag in the "
        "Lean model and are never exercised against the implementation",
        "torch.save/torch.load round-trip tensors (dtype, shape, content); a view saved with torch.save "
        "loads back as the view",
        "os.listdir of the temporary directory is what the data set sees (the listing is taken before the "
        "data set is built and handed to the Lean model of the discovery)",
        "non-tensor alignment/reference files, negative `fix` values, and - in the info-only mode - non-tensor "
        "features, 0-D / >=3-D references and float/bool alignments or references are outside the model (an "
        "info-only case is rewritten before it runs); alignments that are not 1-D are inside (counted flattened)",
    ]
    exhaustive = {"quick": False, "thorough": False}
    quick_budget_s = 150
    thorough_budget_s = 900

    def __init__(self):
        self._stash = {}

    # ------------------------------------------------------------------ generators
    def cases(self, rng, tier):
        big = tier != "quick"
        # --- sos/eos round trips: exhaustive over short transcripts
        toks = [0, 1]
        seqs1 = [list(p) for n in range(0, 3) for p in itertools.product(toks, repeat=n)]
        for via in ("spect", "lang"):
            for to in (False, True):
                for sos, eos in ((None, None), (7, None), (None, 8), (7, 8), (-2, -3)):
                    for t in seqs1:
                        yield {"kind": "sos_eos", "via": via, "tokens_only": to, "sos": sos, "eos": eos,
                               "ref": {"s1": t}}
                        yield {"kind": "sos_eos", "via": via, "tokens_only": to, "sos": sos, "eos": eos,
                               "ref": {"s2": [[x, i, i + 1] if i % 2 == 0 else [x, -1, -1]
                                              for i, x in enumerate(t)]}}
                        # the symbols' VALUES in the boundary columns: only the token column marks a symbol
                        if t and (sos is not None or eos is not None):
                            a = sos if sos is not None else eos
                            b = eos if eos is not None else sos
                            yield {"kind": "sos_eos", "via": via, "tokens_only": to, "sos": sos, "eos": eos,
                                   "ref": {"s2": [[x, min(a, b), max(a, b)] for x in t]}}
        # hypotheses that contain the symbols (strip semantics): correspondence only
        for _ in range(60 if not big else 300):
            n = rng.randrange(0, 6)
            t = [rng.choice([0, 1, 7, 8]) for _ in range(n)]
            # sos == eos included (the start symbol is stripped first); any dtype (stored as long)
            yield {"kind": "hyp", "sos": rng.choice([None, 7, 7, 8]), "eos": rng.choice([None, 8, 8, 7]),
                   "dtype": rng.choice(["i64", "i64", "i32", "u8", "f32"]),
                   "hyp": rng.choice([{"s1": t}, {"s2": [[x, -1, -1] for x in t]},
                                      {"s2": [[x, i, i + 2] for i, x in enumerate(t)]},
                                      # symbol values among the boundaries: not symbols
                                      {"s2": [[x, rng.choice([-1, 0, 7, 8]), rng.choice([-1, 3, 7, 8])] for x in t]}])}

        # --- every way of configuring the data set's view, on a well-formed and on a repairable directory
        views = [{"suppress_alis": True}, {"suppress_uttids": False}, {"suppress_alis": True, "suppress_uttids": False},
                 {"delta_order": 1}, {"delta_order": 2, "do_mvn": True}, {"do_mvn": True}, {"cls": "context"},
                 {"cls": "context", "suppress_uttids": False, "context_left": 1, "context_right": 2},
                 {"sos": 5, "eos": 6, "sos_via": "kwarg"}, {"sos": -2, "eos": None, "tokens_only": True},
                 {"sos": 5, "eos": 6, "tokens_only": True, "suppress_alis": True, "suppress_uttids": False,
                  "delta_order": 1}]
        for cfg in views:
            for defects in ([], ["half_end", "ali_long"], [rng.choice(D.DEFECT_NAMES)]):
                base = D.base_dir(rng, rng.randrange(1, 4), True, rng.choice([1, 2]) if not defects else 2)
                if "delta_order" in cfg:
                    for u in base["utts"]:  # deltas of an integer / empty feature matrix are not defined
                        u["feat"]["dtype"] = rng.choice(["f32", "i64", "f16"])
                d = D.inject(rng, base, defects, 1)
                case = self._mk_history(d, [None, 1, None])
                case["cfg"] = dict(cfg)
                yield case
        # --- the deprecated boolean tolerances (True = 1, False = strict) on every repairable defect
        for nm in ("half_start", "half_end", "ali_long", "overshoot", "ali_dtype", "ref_dtype"):
            for fix in (True, False):
                base = D.base_dir(rng, rng.randrange(1, 3), True, 2)
                d = D.inject(rng, base, [nm], 1)
                for u in d["utts"]:
                    for s_ in ("ali", "ref"):
                        if u[s_]["dtype"] not in ("i64",):
                            u[s_]["dtype"] = rng.choice(D.NARROW)
                yield self._mk_history(d, [fix, None])
        # --- WHEN a repair reaches the disk (audit): a repairable and a fatal defect in the SAME file (the
        # repair made in memory is lost), a repaired file followed by a fatal one in the same utterance / a
        # later utterance (it stays), the negative token found only after the reference was saved
        for case in self._timing_cases():
            yield case
        # --- alignments that are not 1-D: rejected with validation, counted entry by entry (flattened by
        # unique_consecutive) by the info-only mode
        for i in range(6 if not big else 30):
            base = D.base_dir(rng, rng.randrange(1, 4), True, rng.choice([0, 1, 2]))
            d = D.inject(rng, base, ["ali_nd"], 1)
            for mode in ("info", "strict"):
                case = {"kind": "info", "utts": copy.deepcopy(d["utts"]), "dirs": d["dirs"],
                        "defects": d["defects"], "mode": mode, "fix": None}
                if i % 3 == 0:
                    D.big_classes(rng, case)
                yield case
        # --- companion sub-directories that exist but hold no file that counts (not in use)
        for s_, kind in (("ali", "prefix-only"), ("ref", "suffix-only"), ("ali", "neither"), ("ref", "neither")):
            base = D.base_dir(rng, 2, s_ != "ali", 2 if s_ != "ref" else 0)
            lay = {"prefix": "p-", "suffix": ".pt"}
            nm = {"prefix-only": "p-u0.tmp", "suffix-only": "u0.pt", "neither": "README"}[kind]
            lay["stray"] = [[s_, nm], [s_, "p-"], ["feat", "u1.pt"]]
            case = self._mk_history(base, [None, 1])
            case["layout"] = lay
            yield case
            info = {"kind": "info", "utts": copy.deepcopy(base["utts"]), "dirs": base["dirs"], "defects": [],
                    "mode": "strict", "fix": None, "layout": copy.deepcopy(lay)}
            yield info
        for i in range(12 if not big else 60):
            base = D.base_dir(rng, rng.randrange(1, 5), True, rng.choice([1, 2]))
            d = D.inject(rng, base, rng.choice([[], ["overshoot"], ["ali_long"], ["missing_ali"], ["missing_ref"]]), 1)
            if i % 2 == 0:
                case = self._mk_history(d, [rng.choice([None, 1]), None])
                case["layout"] = D.rand_layout(rng, case)
                if i % 4 == 0:
                    case["cfg"] = {"subset_via": "kwarg"}
            else:
                case = {"kind": "info", "utts": d["utts"], "dirs": d["dirs"], "defects": d["defects"],
                        "mode": rng.choice(["info", "strict", "fix"]), "fix": None, "stdout": i % 3 == 0}
                case["layout"] = D.rand_layout(rng, case, cli=True)
                if case["mode"] == "info":
                    self._tame_for_info(case)
            yield case
        for n, mode in ((0, "info"), (0, "strict"), (2, "info"), (2, "fix")):
            d = D.base_dir(rng, n, True, 2)
            yield {"kind": "info", "utts": d["utts"], "dirs": d["dirs"], "defects": [], "mode": mode, "fix": None,
                   "explicit_defaults": True, "stdout": n == 2}
        # --- reading and writing through the data set (SpectDataSet / LangDataSet / ContextWindow is read-only here)
        for i in range(70 if not big else 500):
            ref_kind = rng.choice([0, 1, 2, 2])
            d = D.base_dir(rng, rng.choice([1, 2, 3, 4]), rng.random() < 0.6, ref_kind)
            if d["utts"] and rng.random() < 0.3:
                u = rng.choice(d["utts"])
                s_ = rng.choice(["ali", "ref"])
                if sum(1 for v in d["utts"] if v[s_] is not None) > 1:
                    u[s_] = None
            case = {"kind": "dataset", "utts": d["utts"], "dirs": d["dirs"], "defects": []}
            lang = ref_kind != 0 and rng.random() < 0.3
            if lang:
                case["lang"] = True
            if rng.random() < 0.75:
                case["layout"] = D.rand_layout(rng, case)
                if lang and not case["layout"].get("sub", {}).get("ref", "ref"):
                    del case["layout"]["sub"]["ref"]
            # token ids 10..13, so that sos/eos can take values that occur as segment boundaries (0..T, -1..-3)
            for u in d["utts"]:
                r_ = u.get("ref")
                if r_ is not None and "d1" in r_:
                    r_["d1"] = [x + 10 for x in r_["d1"]]
                if r_ is not None and "d2" in r_:
                    r_["d2"] = [[row[0] + 10] + row[1:] for row in r_["d2"]]
            cfg = {"sos": rng.choice([None, 7, -2, 0, 1, -1]), "eos": rng.choice([None, 8, -3, 2, 3]),
                   "tokens_only": rng.random() < 0.4}
            if rng.random() < 0.4:
                cfg["suppress_uttids"] = False
            if not lang:
                if rng.random() < 0.3:
                    cfg["suppress_alis"] = True
                if rng.random() < 0.3:
                    cfg["sos_via"] = "kwarg"
                if rng.random() < 0.3:
                    cfg["subset_via"] = "kwarg"
                if rng.random() < 0.4:
                    cfg["warn"] = True
            case["cfg"] = cfg
            case["hyp"] = {"by": rng.choice(["idx", "name", "custom"]), "dir": rng.choice(["default", "explicit"]),
                           "dtype": rng.choice(["i64", "i32", "f32"]), "via": rng.choice(["getitem", "tuple"]),
                           "pdf_dtype": rng.choice(["f64", "f32", "f16", "i32"])}
            yield case

        # --- single defects: every defect x tolerance x size, on 1..3 utterances
        sizes = [1, 2, 3, 4]
        for (nm, need, _), tol, k in itertools.product(D.DEFECTS, TOLS, sizes):
            if not big and k == 4 and nm not in ("ali_long", "overshoot"):
                continue
            has_ali = need == "ali" or rng.random() < 0.5
            ref_kind = 2 if need == "ref2" else (rng.choice([1, 2]) if need == "ref" else rng.choice([0, 1, 2]))
            n = rng.randrange(1, 4)
            base = D.base_dir(rng, n, has_ali, ref_kind)
            d = D.inject(rng, base, [nm], k)
            calls = [tol, None] if tol is not None else [None, rng.choice([0, 1, 2, 3]), None]
            yield self._mk_history(d, calls)
        # --- well-formed directories, every option cell
        for has_ali, ref_kind, n in itertools.product((False, True), (0, 1, 2), (0, 1, 2, 4)):
            d = D.base_dir(rng, n, has_ali, ref_kind)
            d["defects"] = []
            yield self._mk_history(d, [None, rng.choice([0, 1, 2, 3]), None])
        # --- pairs of defects (quick: sample; thorough: all pairs)
        pairs = list(itertools.combinations(D.DEFECT_NAMES, 2))
        if not big:
            pairs = rng.sample(pairs, 60)
        for a, b in pairs:
            base = D.base_dir(rng, rng.randrange(1, 4), True, 2 if rng.random() < 0.7 else 1)
            d = D.inject(rng, base, [a, b], rng.choice(sizes))
            yield self._mk_history(d, self._calls(rng))
        # --- random subsets, random histories, dataset views, layouts, the info command
        n_rand = 350 if not big else 4000
        for i in range(n_rand):
            has_ali = rng.random() < 0.7
            ref_kind = rng.choice([0, 1, 2, 2, 2])
            n = rng.choice([1, 2, 2, 3, 3, 4])
            base = D.base_dir(rng, n, has_ali, ref_kind, max_T=4 if not big else 6)
            cand = [nm for nm, need, _ in D.DEFECTS if D.applicable(nm, need, has_ali, ref_kind)]
            m = rng.choice([0, 1, 1, 2, 2, 3, 4, 6])
            names = [rng.choice(cand) for _ in range(m)]
            # repairable defects are over-sampled so that accepted fix runs are frequent
            if rng.random() < 0.5:
                rep = [x for x in ("ali_long", "overshoot", "half_start", "half_end") if x in cand]
                names = [rng.choice(rep) for _ in range(rng.randrange(1, 4))] if rep else names
                if rng.random() < 0.5 and rep:
                    for u in base["utts"]:
                        for s in ("ali", "ref"):
                            if u[s] is not None and rng.random() < 0.5:
                                u[s]["dtype"] = rng.choice(D.NARROW[1:])
            d = D.inject(rng, base, names, rng.choice(sizes))
            c = rng.random()
            if c < 0.55:
                case = self._mk_history(d, self._calls(rng))
                if rng.random() < 0.3:
                    case["layout"] = D.rand_layout(rng, case)
                if rng.random() < 0.3:
                    case["cfg"] = self._rand_cfg(rng, case)
                yield case
            else:
                mode = rng.choice(["info", "strict", "fix", "fix"])
                case = {"kind": "info", "utts": d["utts"], "dirs": d["dirs"], "defects": d["defects"],
                        "mode": mode, "fix": rng.choice([None, 0, 1, 2, 3, 7]) if mode == "fix" else None}
                if rng.random() < 0.35:
                    D.big_classes(rng, case)
                if rng.random() < 0.3:
                    case["layout"] = D.rand_layout(rng, case, cli=True)
                if rng.random() < 0.2:
                    case["stdout"] = True
                if mode == "info":
                    # without validation the report is only specified on data that iterates cleanly
                    self._tame_for_info(case)
                yield case

    def _timing_cases(self):
        def feat(T):
            return {"tensor": True, "dtype": "f32", "dev": "cpu", "dims": [T, 2]}

        def ali(v, dt="i64"):
            return {"dtype": dt, "dev": "cpu", "vec": v}

        def ref2(rows, dt="i64"):
            return {"dtype": dt, "dev": "cpu", "d2": rows}

        def ref1(t, dt="i64"):
            return {"dtype": dt, "dev": "cpu", "d1": t}

        # (label, alignment, reference, tolerance) of the defective utterance; T = 2
        specs = [
            ("halfopen_then_reversed", ali([0, 1, 1], "i32"), ref2([[1, 0, -1], [2, 2, 1]], "i32"), 1),
            ("overshoot_then_too_far", ali([0, 1]), ref2([[1, 0, 3], [2, 0, 7]]), 1),
            ("halfopen_then_start_beyond", ali([0, 1]), ref2([[1, -2, 1], [2, 3, 3]], "i16"), 2),
            ("ali_narrow_too_long", ali([0, 1, 1, 1, 1], "i16"), ref2([[1, 0, 3]]), 1),
            ("ali_narrow_short", ali([0], "u8"), ref2([[1, 0, 3]], "i32"), 2),
            ("ref_narrow_negtoken_1d", ali([0, 1, 0], "i8"), ref1([-1, 2], "i16"), 1),
            ("overshoot_negtoken", ali([0, 1]), ref2([[-1, 0, 3], [1, 2, -1]]), 1),
            ("ref_narrow_width", ali([0, 1, 1]), {"dtype": "i32", "dev": "cpu", "d2w": [1, 2]}, 1),
            ("ref_narrow_mixed", ali([0, 1, 1], "i32"), ref1([1, 2], "i32"), 1),
        ]
        for label, a, r, k in specs:
            two_d = "d2" in r or "d2w" in r or label == "ref_narrow_mixed"
            good_ref = ref2([[1, 0, 2], [0, -1, -1]]) if two_d else ref1([1, 0])
            rep_ref = ref2([[1, 0, 3], [0, 1, -1]], "i32") if two_d else ref1([1, 0], "u8")
            bad = {"name": "u1", "feat": feat(2), "ali": copy.deepcopy(a), "ref": copy.deepcopy(r)}
            good = {"name": "u0", "feat": feat(2), "ali": ali([0, 1]), "ref": good_ref}
            repairable = {"name": "u0", "feat": feat(3), "ali": ali([0, 1, 1, 2], "i32"), "ref": rep_ref}
            for first in (good, repairable):
                for tail in ([], [{"name": "u2", "feat": feat(1), "ali": ali([0, 0], "i32"),
                                   "ref": copy.deepcopy(rep_ref)}]):
                    utts = [copy.deepcopy(first), copy.deepcopy(bad)] + copy.deepcopy(tail)
                    yield {"kind": "history", "utts": utts, "dirs": ["feat", "ali", "ref"],
                           "defects": ["timing_" + label + "@1"], "calls": [k, None, 7]}
            # the defective utterance comes first: nothing after it is touched
            utts = [dict(copy.deepcopy(bad), name="u0"), dict(copy.deepcopy(repairable), name="u1")]
            yield {"kind": "history", "utts": utts, "dirs": ["feat", "ali", "ref"],
                   "defects": ["timing_" + label + "@0"], "calls": [k, 0]}

    def _rand_cfg(self, rng, case):
        """A random view configuration of the data set that validates the directory."""
        sub = case.get("layout", {}).get("sub", {})
        if rng.random() < 0.12 and "ref" not in sub and "ref" not in sub.values():
            cfg = {"cls": "context"}
            if rng.random() < 0.5:
                cfg.update(context_left=rng.randrange(0, 3), context_right=rng.randrange(0, 3), reverse=rng.random() < 0.5)
        else:
            cfg = {}
            if rng.random() < 0.6:
                cfg.update(sos=rng.choice([None, 5, 5, -2]), eos=rng.choice([None, 6, 6, -3]),
                           tokens_only=rng.random() < 0.3)
                if rng.random() < 0.3:
                    cfg["sos_via"] = "kwarg"
            if rng.random() < 0.3:
                cfg["suppress_alis"] = True
        if rng.random() < 0.3:
            cfg["suppress_uttids"] = False
        if rng.random() < 0.25:
            cfg["delta_order"] = rng.choice([1, 2])
        if rng.random() < 0.15:
            cfg["do_mvn"] = True
        if rng.random() < 0.3:
            cfg["subset_via"] = "kwarg"
        if rng.random() < 0.3:
            cfg["warn"] = True
        return cfg

    def _calls(self, rng):
        c = rng.random()
        k = rng.choice([0, 1, 2, 3, 0, 1, 2, 3, 7, 100])
        if c < 0.3:
            return [k, None]
        if c < 0.5:
            return [None, k, None]
        if c < 0.7:
            return [k, k, None]
        if c < 0.9:
            return [rng.choice([0, 1]), rng.choice([2, 3]), None, rng.choice([0, 3])]
        return [rng.choice([True, False]), None]

    def _mk_history(self, d, calls):
        return {"kind": "history", "utts": d["utts"], "dirs": d["dirs"], "defects": d.get("defects", []),
                "calls": calls}

    def _tame_for_info(self, case):
        for u in case["utts"]:
            f = u["feat"]
            f["tensor"] = True
            if u.get("ali") is not None:
                a = u["ali"]
                # an alignment that is not 1-D is kept: unique_consecutive flattens it, the report
                # counts it entry by entry in storage order (model: AliData.flat)
                if a["dtype"] in ("f16", "f32", "f64", "bool"):
                    a["dtype"] = "i32"
            if u.get("ref") is not None:
                r = u["ref"]
                if "nd" in r:
                    u["ref"] = {"dtype": r["dtype"], "dev": "cpu", "d1": []}
                if r["dtype"] in ("f16", "f32", "f64", "bool"):
                    u["ref"]["dtype"] = "i32"

    # ------------------------------------------------------------------ implementation
    def _dataset(self, root, case):
        """The data set the case describes: every way of configuring the view (sos/eos through params
        or the deprecated keywords, tokens_only, suppress_alis, suppress_uttids, feature transforms, the
        ContextWindowDataSet subclass) and of pointing it at the files (prefix, suffix, sub-directory
        names, subset_ids through params or the deprecated keyword)."""
        from pydrobert.torch import data
        cfg = case.get("cfg", {})
        layout = case.get("layout", {})
        kw = {"file_prefix": layout.get("prefix", ""), "file_suffix": layout.get("suffix", ".pt"),
              "warn_on_missing": cfg.get("warn", False), "suppress_uttids": cfg.get("suppress_uttids", True)}
        for s_ in D.SUBDIRS:
            if s_ in layout.get("sub", {}):
                kw[s_ + "_subdir"] = layout["sub"][s_]
        pkw = {}
        if layout.get("subset"):
            if cfg.get("subset_via", "params") == "params":
                pkw["subset_ids"] = list(layout["subset"])
            else:
                kw["subset_ids"] = set(layout["subset"])
        for k in ("delta_order", "do_mvn"):
            if k in cfg:
                pkw[k] = cfg[k]
        if cfg.get("cls") == "context":
            kw.pop("ref_subdir", None)
            for k in ("context_left", "context_right", "reverse"):
                if k in cfg:
                    pkw[k] = cfg[k]
            return data.ContextWindowDataSet(root, params=data.ContextWindowDataParams(**pkw), **kw)
        if cfg.get("sos_via", "params") == "params":
            pkw["sos"], pkw["eos"] = cfg.get("sos"), cfg.get("eos")
        else:
            kw["sos"], kw["eos"] = cfg.get("sos"), cfg.get("eos")
        return data.SpectDataSet(
            root, params=data.SpectDataParams(**pkw), suppress_alis=cfg.get("suppress_alis", False),
            tokens_only=cfg.get("tokens_only", False), **kw)

    def run_impl(self, case):
        self._stash.pop(self.key(case), None)
        with warnings.catch_warnings():
            warnings.simplefilter("ignore")
            if case["kind"] == "history":
                return self._run_history(case)
            if case["kind"] == "info":
                return self._run_info(case)
            if case["kind"] == "sos_eos":
                return self._run_sos_eos(case)
            if case["kind"] == "dataset":
                return self._run_dataset(case)
            return self._run_hyp(case)

    def _untouched(self, root, case, ids, snap0, used=None, new_dirs=("out",)):
        """Files that do not belong to a discovered utterance in a sub-directory in use must be
        byte-identical; no file or directory may appear or disappear."""
        layout = case.get("layout", {})
        mine = {D.fname(layout, n) for n in ids}
        inuse = {D.subname(layout, "feat")}
        for s_ in ("ali", "ref"):
            if used is None or used[s_]:
                inuse.add(D.subname(layout, s_))
        snap = D.snapshot(root, case)
        for s, files in snap0.items():
            for nm, b in files.items():
                if s in inuse and nm in mine:
                    continue
                if snap.get(s, {}).get(nm) != b:
                    return False
        for s, files in snap.items():
            if s in new_dirs:
                continue
            if set(files) != set(snap0.get(s, {})):
                return False
        return set(snap) - set(new_dirs) == set(snap0)

    def _run_history(self, case):
        from pydrobert.torch import data
        ids, used = D.discovered(case)
        with tmpdir() as root:
            D.write_dir(root, case)
            snap0 = D.snapshot(root, case)
            lst = D.listing(root, case)
            ds = self._dataset(root, case)
            obs = {"utt_ids": list(ds.utt_ids), "has_ali": bool(ds.has_ali), "has_ref": bool(ds.has_ref)}
            self._stash[self.key(case)] = {"discover": lst}
            if obs["utt_ids"] != ids or obs["has_ali"] != used["ali"] or obs["has_ref"] != used["ref"]:
                return obs  # discovery differs: nothing below is comparable
            init = D.read_utts(root, case, ids, used)
            dig0 = D.feat_digest(root, case, ids)
            steps = []
            for fix in case["calls"]:
                st = {}
                with warnings.catch_warnings(record=True) as wlist:
                    warnings.simplefilter("always")
                    try:
                        data.validate_spect_data_set(ds, fix)
                        st["ok"] = True
                        st["err"] = None
                    except Exception as e:
                        st["ok"] = False
                        st["err"] = type(e).__name__
                # "any of these changes will be warned of": the repairs announce themselves
                st["n_warn"] = sum(1 for w in wlist if not issubclass(w.category, (DeprecationWarning, FutureWarning)))
                st["disk"] = D.read_utts(root, case, ids, used)
                st["feat_content_same"] = D.feat_digest(root, case, ids) == dig0
                st["others_untouched"] = self._untouched(root, case, ids, snap0, used)
                steps.append(st)
            obs["steps"] = steps
            view = (ds.tokens_only, ds.sos, ds.eos, ds.suppress_alis, ds.suppress_uttids)
            cfg = case.get("cfg", {})
            obs["view_kept"] = list(view) == [
                False if cfg.get("cls") == "context" else cfg.get("tokens_only", False),
                None if cfg.get("cls") == "context" else cfg.get("sos"),
                None if cfg.get("cls") == "context" else cfg.get("eos"),
                False if cfg.get("cls") == "context" else cfg.get("suppress_alis", False),
                cfg.get("suppress_uttids", True)] and (ds.transform is not None) == bool(
                    cfg.get("delta_order") or cfg.get("do_mvn"))
            self._stash[self.key(case)] = {"init": init, "disks": [s["disk"] for s in steps], "discover": lst}
            return obs

    def _run_info(self, case):
        from pydrobert.torch import command_line
        ids, used = D.discovered(case)
        with tmpdir() as root:
            D.write_dir(root, case)
            snap0 = D.snapshot(root, case)
            lst = D.listing(root, case)
            init = D.read_utts(root, case, ids, used)
            layout = case.get("layout", {})
            to_stdout = bool(case.get("stdout"))
            os.makedirs(os.path.join(root, "out"))
            out = os.path.join(root, "out", "info.txt")
            args = [root] + ([] if to_stdout else [out])
            # every option of the command; the defaults are left out when the layout is the default
            if "layout" in case or case.get("explicit_defaults"):
                args += ["--file-prefix=" + layout.get("prefix", ""), "--file-suffix=" + layout.get("suffix", ".pt")]
                for s_ in D.SUBDIRS:
                    if s_ in layout.get("sub", {}) or case.get("explicit_defaults"):
                        args.append(f"--{s_}-subdir=" + D.subname(layout, s_))
            if case["mode"] == "strict":
                args.append("--strict")
            elif case["mode"] == "fix":
                if case["fix"] is not None:
                    args += ["--fix", str(case["fix"])]
                else:
                    args.append("--fix")
            obs = {}
            buf = io.StringIO()
            try:
                with contextlib.redirect_stderr(io.StringIO()), contextlib.redirect_stdout(buf):
                    rc = command_line.get_torch_spect_data_dir_info(args)
                obs["ok"] = rc == 0
                obs["err"] = None if rc == 0 else f"exit {rc}"
            except Exception as e:
                obs["ok"] = False
                obs["err"] = type(e).__name__
            obs["disk"] = D.read_utts(root, case, ids, used)
            obs["others_untouched"] = self._untouched(root, case, ids, snap0, used)
            if obs["ok"]:
                rep, keys, lines = {}, [], []
                if to_stdout:
                    text = buf.getvalue()
                    obs["no_file"] = not os.path.exists(out)
                else:
                    with open(out) as f:
                        text = f.read()
                    obs["stdout_silent"] = buf.getvalue() == ""
                for line in text.splitlines():
                    k, v = line.split()
                    keys.append(k)
                    lines.append([k, int(v)])
                    rep[k] = int(v)
                obs["report"] = rep
                obs["lines"] = lines
                obs["keys_sorted"] = keys == sorted(keys)
                # zero padding: class keys of one family have equal length, hence sort by index
                fam = {}
                for k in keys:
                    pre, _, idx = k.rpartition("_")
                    if pre in ("count", "segs", "rcount", "rsegs") and idx.isdigit():
                        fam.setdefault(pre, []).append(idx)
                obs["padding_ok"] = all(len({len(i) for i in v}) == 1 and [int(i) for i in v] == list(range(len(v)))
                                        for v in fam.values())
            self._stash[self.key(case)] = {"init": init, "disk": obs["disk"], "discover": lst}
            return obs

    def _seq_tensor(self, seq):
        import torch
        if "s1" in seq:
            return torch.tensor(seq["s1"], dtype=torch.long).reshape(len(seq["s1"]))
        return torch.tensor(seq["s2"], dtype=torch.long).reshape(len(seq["s2"]), 3)

    def _seq_desc(self, t):
        if t.dim() == 1:
            return {"s1": D.ints(t)}
        return {"s2": [[int(v) for v in row] for row in t.tolist()]}

    def _run_sos_eos(self, case):
        import torch
        from pydrobert.torch import data
        with tmpdir() as root:
            ref = self._seq_tensor(case["ref"])
            if case["via"] == "spect":
                os.makedirs(os.path.join(root, "feat"))
                os.makedirs(os.path.join(root, "ref"))
                torch.save(torch.zeros(3, 2), os.path.join(root, "feat", "a.pt"))
                torch.save(ref, os.path.join(root, "ref", "a.pt"))
                ds = data.SpectDataSet(root, params=data.SpectDataParams(sos=case["sos"], eos=case["eos"]),
                                       suppress_alis=True, tokens_only=case["tokens_only"])
                hyp_dir = os.path.join(root, "hyp")
            else:
                os.makedirs(os.path.join(root, "ref"))
                torch.save(ref, os.path.join(root, "ref", "a.pt"))
                ds = data.LangDataSet(os.path.join(root, "ref"),
                                      params=data.LangDataParams(sos=case["sos"], eos=case["eos"]),
                                      tokens_only=case["tokens_only"])
                hyp_dir = os.path.join(root, "hyp")
            item = ds[0]
            loaded = item[1] if case["via"] == "spect" else item
            obs = {"loaded": self._seq_desc(loaded), "dtype": D.dtype_tag(loaded.dtype)}
            ds.write_hyp(0, loaded, hyp_dir)
            back = torch.load(os.path.join(hyp_dir, "a.pt"))
            obs["written"] = self._seq_desc(back)
            return obs

    def _run_dataset(self, case):
        """Reading every utterance of a (well-formed) directory through a configured data set and
        writing hypotheses / pdfs back: which files are used, what the tuple holds, where the output
        goes."""
        import torch
        from pydrobert.torch import data
        cfg = case.get("cfg", {})
        layout = case.get("layout", {})
        lang = bool(case.get("lang"))
        ids, used = D.discovered(case)
        with tmpdir() as root:
            D.write_dir(root, case)
            snap0 = D.snapshot(root, case)
            lst = D.listing(root, case)
            if lang:
                rdir = os.path.join(root, D.subname(layout, "ref"))
                lst = {"prefix": lst["prefix"], "suffix": lst["suffix"], "subset": lst["subset"],
                       "feat": lst["ref"] or [], "ali": None, "ref": None}
                names = {u["name"] for u in case["utts"] if u.get("ref") is not None}
                ids = sorted(names & set(layout["subset"]) if layout.get("subset") else names)
                pkw = {"sos": cfg.get("sos"), "eos": cfg.get("eos")}
                if layout.get("subset"):
                    pkw["subset_ids"] = list(layout["subset"])
                ds = data.LangDataSet(rdir, params=data.LangDataParams(**pkw),
                                      file_prefix=layout.get("prefix", ""), file_suffix=layout.get("suffix", ".pt"),
                                      suppress_uttids=cfg.get("suppress_uttids", True),
                                      tokens_only=cfg.get("tokens_only", True))
                obs = {"utt_ids": list(ds.utt_ids)}
            else:
                ds = self._dataset(root, case)
                obs = {"utt_ids": list(ds.utt_ids), "has_ali": bool(ds.has_ali), "has_ref": bool(ds.has_ref)}
            self._stash[self.key(case)] = {"discover": lst, "refs": []}
            if obs["utt_ids"] != ids or (not lang and (obs["has_ali"] != used["ali"] or obs["has_ref"] != used["ref"])):
                return obs
            obs["len"] = len(ds)
            stored = {n: u for n, u in ((u["name"], u) for u in case["utts"])}
            hy = case.get("hyp", {})
            hyp_dir = os.path.join(root, "my_hyps") if hy.get("dir") == "explicit" or lang else None
            pdf_dir = os.path.join(root, "my_pdfs") if hy.get("dir") == "explicit" else None
            items, refs = [], []
            for idx, name in enumerate(ids):
                tup = ds[idx] if hy.get("via", "getitem") == "getitem" else ds.get_utterance_tuple(idx)
                tup = tup if isinstance(tup, tuple) else (tup,)
                it = {"len": len(tup)}
                pos = 0
                if not lang:
                    f = tup[0]
                    it["feat"] = D.desc_feat(f)
                    it["feat_same"] = repr(f.tolist()) == repr(D.make_feat(stored[name]["feat"]).tolist())
                    pos = 1
                    if not cfg.get("suppress_alis", False):
                        a = tup[pos]
                        it["ali"] = None if a is None else D.desc_ali(a)
                        pos += 1
                r = tup[pos]
                pos += 1
                it["ref"] = None if r is None else self._seq_desc(r)
                it["ref_dtype"] = None if r is None else D.dtype_tag(r.dtype)
                it["uttid"] = tup[pos] if not cfg.get("suppress_uttids", True) else None
                sref = stored[name].get("ref") if (lang or used["ref"]) else None
                refs.append(None if sref is None else ({"s1": sref["d1"]} if "d1" in sref else {"s2": sref["d2"]}))
                if r is not None:
                    # write what was read back as a hypothesis: by index, by id, or under another name
                    by = hy.get("by", "idx")
                    utt = idx if by == "idx" else (name if by == "name" else "special-" + name)
                    out_name = name if by != "custom" else "special-" + name
                    h = r.to(D.torch_dtype(hy.get("dtype", "i64")))
                    if hyp_dir is None:
                        ds.write_hyp(utt, h)
                    else:
                        ds.write_hyp(utt, h, hyp_dir)
                    hp = os.path.join(hyp_dir or os.path.join(root, "hyp"), D.fname(layout, out_name))
                    if os.path.exists(hp):
                        back = torch.load(hp)
                        it["written"] = self._seq_desc(back)
                        it["written_dtype"] = D.dtype_tag(back.dtype)
                    else:
                        it["written"] = "no file " + os.path.relpath(hp, root)
                if not lang:
                    T = tup[0].shape[0]
                    pdf = (torch.arange(T * 2, dtype=torch.float64).reshape(T, 2) / 4 - 1).to(
                        D.torch_dtype(hy.get("pdf_dtype", "f64")))
                    utt = idx if hy.get("by", "idx") == "idx" else name
                    if pdf_dir is None:
                        ds.write_pdf(utt, pdf)
                    else:
                        ds.write_pdf(utt, pdf, pdf_dir)
                    pp = os.path.join(pdf_dir or os.path.join(root, "pdfs"), D.fname(layout, name))
                    if os.path.exists(pp):
                        back = torch.load(pp)
                        it["pdf_ok"] = (back.dtype == torch.float32 and back.device.type == "cpu"
                                        and back.shape == pdf.shape and bool((back == pdf.float()).all()))
                    else:
                        it["pdf_ok"] = "no file " + os.path.relpath(pp, root)
                items.append(it)
            obs["items"] = items
            obs["others_untouched"] = self._untouched(root, dict(case, utts=[]), [], snap0, None,
                                                      ("hyp", "pdfs", "my_hyps", "my_pdfs"))
            self._stash[self.key(case)] = {"discover": lst, "refs": refs}
            return obs

    def _run_hyp(self, case):
        import torch
        from pydrobert.torch._datasets import _write_hyp
        with tmpdir() as root:
            p = os.path.join(root, "h.pt")
            h = self._seq_tensor(case["hyp"]).to(D.torch_dtype(case.get("dtype", "i64")))
            # the model is given the values the tensor holds (a narrow dtype wraps -1 around)
            self._stash[self.key(case)] = {"hyp": self._seq_desc(h.long())}
            _write_hyp(h, p, case["sos"], case["eos"])
            back = torch.load(p)
            return {"written": self._seq_desc(back), "dtype": D.dtype_tag(back.dtype)}

    # ------------------------------------------------------------------ model
    def model_request(self, case):
        if case["kind"] == "sos_eos":
            return {"op": "c12.sos_eos", "case": {"ref": case["ref"], "sos": case["sos"], "eos": case["eos"],
                                                  "tokens_only": case["tokens_only"]}}
        if case["kind"] == "hyp":
            st = self._stash.get(self.key(case)) or {"hyp": case["hyp"]}
            return {"op": "c12.write_hyp", "case": {"hyp": st["hyp"], "sos": case["sos"], "eos": case["eos"]}}
        st = self._stash.get(self.key(case))
        if st is None:
            return None
        if case["kind"] == "dataset":
            cfg = case.get("cfg", {})
            return {"op": "c12.dataset", "case": {
                "discover": st["discover"], "refs": st["refs"], "sos": cfg.get("sos"), "eos": cfg.get("eos"),
                "tokens_only": cfg.get("tokens_only", True if case.get("lang") else False)}}
        if case["kind"] == "history":
            return {"op": "c12.history", "case": {"utts": st.get("init", []),
                                                  "calls": [norm_fix(f) for f in case["calls"]] if "init" in st else [],
                                                  "impl_disks": st.get("disks", []), "discover": st["discover"]}}
        return {"op": "c12.info", "case": {"utts": st["init"], "mode": case["mode"], "fix": case["fix"],
                                           "impl_disk": st["disk"], "discover": st["discover"]}}

    # ------------------------------------------------------------------ correspondence
    def compare(self, case, impl, model):
        if "error" in impl:
            return [f"harness/implementation raised outside a validation call: {impl['error']}: {impl.get('message')}"]
        out = []
        disc = model.get("discover") if isinstance(model, dict) else None
        if disc is not None and "utt_ids" in impl:
            for k in ("utt_ids", "has_ali", "has_ref"):
                if k in impl and impl[k] != disc[k]:
                    out.append(f"discovery: {k}: impl={impl[k]} model={disc[k]}")
            if out:
                return out
        if case["kind"] == "dataset":
            for i, it in enumerate(impl.get("items", [])):
                if it["ref"] != model["loaded"][i]:
                    out.append(f"utterance {i}: _load_ref: impl={it['ref']} model={model['loaded'][i]}")
                if it.get("written") != model["written"][i]:
                    out.append(f"utterance {i}: write_hyp: impl={it.get('written')} model={model['written'][i]}")
            return out
        if case["kind"] == "history":
            for i, (a, b) in enumerate(zip(impl.get("steps", []), model["steps"])):
                if a["ok"] != b["ok"]:
                    out.append(f"call {i} (fix={case['calls'][i]}): impl {'returns' if a['ok'] else 'raises ' + str(a['err'])}, "
                               f"model {'returns' if b['ok'] else 'raises ' + str(b['err'])}")
                    break  # later calls start from different directories
                if a["disk"] != b["disk"]:
                    out.append(f"call {i} (fix={case['calls'][i]}): directory afterwards differs: impl={a['disk']} model={b['disk']}")
                    break
        elif case["kind"] == "info":
            if impl["ok"] != model["ok"]:
                out.append(f"info {case['mode']} fix={case['fix']}: impl ok={impl['ok']} ({impl['err']}), model ok={model['ok']} ({model['err']})")
            elif impl["disk"] != model["disk"]:
                out.append(f"info: directory afterwards differs: impl={impl['disk']} model={model['disk']}")
            elif impl["ok"] and impl["lines"] != model["lines"]:
                out.append(f"info: output differs: impl={impl['lines']} model={model['lines']}")
        elif case["kind"] == "sos_eos":
            if impl["loaded"] != model["loaded"]:
                out.append(f"_load_ref: impl={impl['loaded']} model={model['loaded']}")
            if impl["written"] != model["written"]:
                out.append(f"_write_hyp: impl={impl['written']} model={model['written']}")
        else:
            if impl["written"] != model["written"]:
                out.append(f"_write_hyp: impl={impl['written']} model={model['written']}")
        return out

    # ------------------------------------------------------------------ the property on the implementation
    def predicate(self, case, impl, model):
        kind = case["kind"]
        if kind == "hyp":
            # write_hyp's docstring: everything up to and including the LAST sos and everything from
            # the FIRST eos on is removed; the Lean `writeHyp` is that statement
            if "error" in impl:
                return [(f"_write_hyp raised {impl['error']}: {impl.get('message')}", None)]
            fails = []
            if model is not None and impl["written"] != model["written"]:
                fails.append((f"_write_hyp wrote {impl['written']}, documented stripping of {case['hyp']} with "
                              f"sos={case['sos']} eos={case['eos']} gives {model['written']}", "C12.write_hyp.strip"))
            if impl["dtype"] != "i64":
                fails.append((f"_write_hyp stored dtype {impl['dtype']}, documented hyp.cpu().long()",
                              "C12.write_hyp.dtype"))
            return fails
        if kind == "sos_eos":
            return self._pred_sos_eos(case, impl, model)
        if kind == "dataset":
            return self._pred_dataset(case, impl, model)
        if "error" in impl:
            return [(f"raised outside a validation call: {impl['error']}: {impl.get('message')}", None)]
        fails = []
        if kind == "history":
            ids, used = D.discovered(case)
            if impl["utt_ids"] != ids:
                return [(f"utterance discovery: data set lists {impl['utt_ids']}, files present for {ids}",
                         "C12.discovery.utt_ids")]
            if impl["has_ali"] != used["ali"] or impl["has_ref"] != used["ref"]:
                return [(f"utterance discovery: has_ali/has_ref = {impl['has_ali']}/{impl['has_ref']}, "
                         f"sub-directories in use: {used}", "C12.discovery.in_use")]
            if model is None:
                return fails
            if not impl.get("view_kept", True):
                fails.append(("validation changed the data set's configuration (sos/eos/tokens_only/suppress_*/"
                              "transform)", "C12.validate.view_changed"))
            st = self._stash.get(self.key(case))
            before = st["init"] if st else None
            for i, (a, o) in enumerate(zip(impl["steps"], model["oracle"])):
                fix = case["calls"][i]
                fails += self._pred_call(f"call {i} (fix={fix})", a["ok"], a["err"], before, a["disk"], o,
                                         "validate")
                if not a["feat_content_same"]:
                    fails.append((f"call {i}: feature content changed", None))
                if a["ok"] and "n_warn" in a and (a["n_warn"] > 0) != (a["disk"] != before):
                    fails.append((f"call {i} (fix={fix}): {a['n_warn']} warning(s) although the directory was "
                                  f"{'changed' if a['disk'] != before else 'left as it was'} (documented: every "
                                  f"repair is warned of)", "C12.validate.warnings"))
                if not a["others_untouched"]:
                    fails.append((f"call {i}: a file outside the data set's utterances was modified", None))
                before = a["disk"]
            return fails
        # info
        if model is None:
            return fails
        st = self._stash.get(self.key(case))
        if case["mode"] != "info":
            o = {"expected": model["expected"], "expected_wf": model["expected_wf"], "after_wf": None}
            neg_ali = any(u["ali"] is not None and any(v < 0 for v in u["ali"].get("vec", []))
                          for u in model["expected"])
            if not (neg_ali and model["expected_wf"]):  # a negative alignment class is a ValueError of the report
                fails += self._pred_call(f"info --{case['mode']} {case['fix']}", impl["ok"], impl["err"],
                                         st["init"], impl["disk"], o, "info")
        elif impl["disk"] != st["init"]:
            fails.append(("info without --strict/--fix modified the directory", None))
        if not impl["others_untouched"]:
            fails.append(("info: a file outside the data set's utterances was modified", None))
        if impl["ok"]:
            if impl.get("no_file") is False or impl.get("stdout_silent") is False:
                fails.append(("info: output went to the wrong place (file given -> nothing on stdout; no file "
                              "given -> stdout only)", "C12.info.output_place"))
            if impl["report"] == model["impl_recount"] and impl["lines"] != model["impl_recount_lines"]:
                fails.append((f"report lines are not the recount in sorted key order: {impl['lines']} vs "
                              f"{model['impl_recount_lines']}", "C12.info.order"))
            if impl["report"] != model["impl_recount"]:
                diff = {k: (impl["report"].get(k), model["impl_recount"].get(k))
                        for k in set(impl["report"]) | set(model["impl_recount"])
                        if impl["report"].get(k) != model["impl_recount"].get(k)}
                fails.append((f"report is not the recount of the stored tensors: (reported, recount) = {diff}",
                              "C12.info.recount"))
            if not impl["keys_sorted"] or not impl["padding_ok"]:
                fails.append(("report keys are not sorted / class indices not zero-padded to equal width", None))
        return fails

    def _pred_call(self, label, ok, err, before, after, o, entry):
        fails = []
        if ok and not o["expected_wf"]:
            fails.append((f"{label}: returns normally although the directory, documented repairs applied, is not "
                          f"well-formed", f"C12.{entry}.accepts_ill_formed"))
        if not ok and o["expected_wf"]:
            fails.append((f"{label}: raises {err} although the directory, documented repairs applied, is well-formed",
                          f"C12.{entry}.rejects_well_formed"))
        if not ok and err != "ValueError":
            fails.append((f"{label}: raises {err}, documented is ValueError", f"C12.{entry}.error_class"))
        if ok:
            if after != o["expected"]:
                fails.append((f"{label}: directory after an accepted run is not the documented repairs applied to "
                              f"the directory before: after={after} expected={o['expected']}",
                              f"C12.{entry}.undocumented_change"))
            if o.get("after_wf") is False:
                fails.append((f"{label}: accepted, but what is on disk now is not well-formed",
                              f"C12.{entry}.accepted_ill_formed_after"))
        else:
            # whatever was written before the raise must be a documented repair, file by file
            for j, (b, a, e) in enumerate(zip(before, after, o["expected"])):
                stt = file_status(b, a, e)
                bad = [s for s, v in stt.items() if v == "other"]
                if bad:
                    fails.append((f"{label}: raised, and file(s) {bad} of utterance {j} were changed to something "
                                  f"that is not the documented repair: before={b} after={a}",
                                  f"C12.{entry}.undocumented_change"))
        return fails

    def _pred_dataset(self, case, impl, model):
        if "error" in impl:
            return [(f"reading/writing through the data set raised {impl['error']}: {impl.get('message')}",
                     "C12.dataset.raises")]
        cfg = case.get("cfg", {})
        lang = bool(case.get("lang"))
        layout = case.get("layout", {})
        if lang:
            names = {u["name"] for u in case["utts"] if u.get("ref") is not None}
            ids = sorted(names & set(layout["subset"]) if layout.get("subset") else names)
            used = {"ali": False, "ref": True}
        else:
            ids, used = D.discovered(case)
        if impl["utt_ids"] != ids:
            return [(f"utterance discovery: data set lists {impl['utt_ids']}, files present for {ids}",
                     "C12.discovery.utt_ids")]
        if not lang and (impl["has_ali"] != used["ali"] or impl["has_ref"] != used["ref"]):
            return [(f"utterance discovery: has_ali/has_ref = {impl['has_ali']}/{impl['has_ref']}, "
                     f"sub-directories in use: {used}", "C12.discovery.in_use")]
        fails = []
        if impl["len"] != len(ids):
            fails.append((f"len(data_set) = {impl['len']}, {len(ids)} utterances", None))
        stored = {u["name"]: u for u in case["utts"]}
        sos, eos = cfg.get("sos"), cfg.get("eos")
        tokens_only = cfg.get("tokens_only", True if lang else False)
        for i, (name, it) in enumerate(zip(ids, impl["items"])):
            u = stored[name]
            want_len = (1 if lang else 2 + (0 if cfg.get("suppress_alis", False) else 1)) + \
                (0 if cfg.get("suppress_uttids", True) else 1)
            if it["len"] != want_len:
                fails.append((f"utterance {i}: tuple of {it['len']} entries, documented {want_len}", None))
            if not lang:
                if not it["feat_same"] or it["feat"] != u["feat"]:
                    fails.append((f"utterance {i} ({name!r}): features handed out are not the stored ones",
                                  "C12.dataset.wrong_file"))
                if not cfg.get("suppress_alis", False):
                    want = u["ali"] if used["ali"] else None
                    if it["ali"] != want:
                        fails.append((f"utterance {i} ({name!r}): alignment handed out {it['ali']}, stored {want}",
                                      "C12.dataset.wrong_file"))
            if not cfg.get("suppress_uttids", True) and it["uttid"] != name:
                fails.append((f"utterance {i}: uttid {it['uttid']!r}, expected {name!r}", None))
            sref = u.get("ref") if used["ref"] else None
            if sref is None:
                if it["ref"] is not None:
                    fails.append((f"utterance {i}: a reference is handed out although ref/ is not in use", None))
                continue
            two_d = "d2" in sref and not tokens_only
            bare = sref["d2"] if two_d else (sref["d1"] if "d1" in sref else [r[0] for r in sref["d2"]])
            wrap = (lambda x: [x, -1, -1]) if two_d else (lambda x: x)
            exp = ([wrap(sos)] if sos is not None else []) + bare + ([wrap(eos)] if eos is not None else [])
            key = "s2" if two_d else "s1"
            if it["ref"] != {key: exp}:
                fails.append((f"utterance {i} ({name!r}): reference read with sos={sos} eos={eos} "
                              f"tokens_only={tokens_only} is {it['ref']}, expected {exp}", "C12.load_ref.symbols"))
            if it["ref_dtype"] != "i64":
                fails.append((f"utterance {i}: loaded reference has dtype {it['ref_dtype']}", None))
            if it.get("written") != {key: bare}:
                fails.append((f"utterance {i} ({name!r}): written hypothesis {it.get('written')} is not the bare "
                              f"transcript {bare} under <hyp dir>/<prefix><utt><suffix>", "C12.write_hyp.roundtrip"))
            elif it.get("written_dtype") != "i64":
                fails.append((f"utterance {i}: hypothesis stored as {it.get('written_dtype')}, documented long",
                              "C12.write_hyp.dtype"))
            if not lang and it.get("pdf_ok") is not True:
                fails.append((f"utterance {i} ({name!r}): write_pdf did not store pdf.cpu().float() under "
                              f"<pdfs dir>/<prefix><utt><suffix>: {it.get('pdf_ok')}", "C12.write_pdf"))
        if not impl["others_untouched"]:
            fails.append(("reading/writing through the data set modified the data directory or wrote outside "
                          "hyp/ and pdfs/", "C12.dataset.touched"))
        return fails

    def _pred_sos_eos(self, case, impl, model):
        if "error" in impl:
            return [(f"loading a reference with sos={case['sos']} eos={case['eos']} raised {impl['error']}: "
                     f"{impl.get('message')}", "C12.load_ref.raises")]
        fails = []
        ref = case["ref"]
        two_d = "s2" in ref and not case["tokens_only"]
        bare = ref["s2"] if two_d else (ref["s1"] if "s1" in ref else [r[0] for r in ref["s2"]])
        wrap = (lambda x: [x, -1, -1]) if two_d else (lambda x: x)
        exp = ([wrap(case["sos"])] if case["sos"] is not None else []) + bare + \
              ([wrap(case["eos"])] if case["eos"] is not None else [])
        key = "s2" if two_d else "s1"
        if impl["loaded"] != {key: exp}:
            fails.append((f"reference read with sos={case['sos']} eos={case['eos']} is {impl['loaded']}, "
                          f"expected {exp}", "C12.load_ref.symbols"))
        if impl["dtype"] != "i64":
            fails.append((f"loaded reference has dtype {impl['dtype']}", None))
        if impl["written"] != {key: bare}:
            fails.append((f"written hypothesis {impl['written']} is not the bare transcript {bare}",
                          "C12.write_hyp.roundtrip"))
        if model is not None and (model["loaded"] != {key: exp} or model["written"] != {key: bare}):
            fails.append(("internal: Lean spec disagrees with the python statement of the round trip", None))
        return fails

    # ------------------------------------------------------------------ bookkeeping
    def nontrivial(self, case, impl):
        if case["kind"] in ("history", "info"):
            return bool(case.get("defects")) or len(case["dirs"]) == 3
        if case["kind"] == "sos_eos":
            return case["sos"] is not None or case["eos"] is not None
        if case["kind"] == "dataset":
            return len(case["utts"]) > 1 or "layout" in case
        return True

    def tags(self, case, impl):
        t = [f"kind={case['kind']}"]
        if case["kind"] in ("history", "info", "dataset"):
            lay = case.get("layout")
            if lay is not None:
                t.append("layout: any")
                t.append(f"layout: prefix={lay.get('prefix', '')!r} suffix={lay.get('suffix', '.pt')!r}")
                for k_, v_ in sorted(lay.get("sub", {}).items()):
                    t.append(f"layout: {k_}_subdir={'None' if v_ is None else ('empty string' if v_ == '' else 'renamed')}")
                if lay.get("subset"):
                    t.append("layout: subset_ids")
                if lay.get("stray"):
                    t.append("layout: stray/decoy files")
                if any(u["name"] == "" for u in case["utts"]):
                    t.append("layout: empty utterance id")
            for k_, v_ in sorted(case.get("cfg", {}).items()):
                if k_ in ("sos", "eos"):
                    v_ = "set" if v_ is not None else None
                if k_.startswith("context_") or k_ == "reverse":
                    continue
                t.append(f"cfg: {k_}={v_}")
        if case["kind"] == "dataset":
            t.append("dataset: " + ("LangDataSet" if case.get("lang") else "SpectDataSet"))
            for k_, v_ in sorted(case.get("hyp", {}).items()):
                t.append(f"dataset: write {k_}={v_}")
            t.append(f"n_utts={len(case['utts'])}")
        if case["kind"] == "hyp":
            t.append(f"hyp dtype={case.get('dtype', 'i64')}")
            if case["sos"] is not None and case["sos"] == case["eos"]:
                t.append("hyp sos==eos")
        if case["kind"] in ("history", "info"):
            t.append(f"n_utts={len(case['utts'])}")
            t.append(f"n_defects={min(len(case.get('defects', [])), 5)}")
            for dname in case.get("defects", []):
                t.append("defect=" + dname.split("@")[0])
            t.append("dirs=" + "+".join(case["dirs"]))
        if case["kind"] == "history" and isinstance(impl, dict) and "steps" in impl:
            for f, s in zip(case["calls"], impl["steps"]):
                t.append(f"call fix={f}: {'accept' if s['ok'] else 'reject'}")
            if any(s["ok"] and f is not None and f is not False and i > 0 and s["disk"] != impl["steps"][i - 1]["disk"]
                   or (s["ok"] and f is not None and i == 0)
                   for i, (f, s) in enumerate(zip(case["calls"], impl["steps"]))):
                t.append("accepted fix run")
            if "cfg" in case:
                t.append("view with sos/eos/tokens_only")
            if "layout" in case:
                t.append("non-default prefix/suffix")
        if case["kind"] == "info":
            t.append(f"info mode={case['mode']} fix={case['fix']}")
            if case.get("stdout"):
                t.append("info to stdout")
            if isinstance(impl, dict) and impl.get("report"):
                w = max((len(k.rpartition("_")[2]) for k in impl["report"]
                         if k.rpartition("_")[0] in ("count", "rcount")), default=0)
                t.append(f"info class-index width={w}")
            if isinstance(impl, dict) and "ok" in impl:
                t.append("info " + ("accept" if impl["ok"] else "reject"))
        if case["kind"] == "sos_eos":
            r = case["ref"]
            t.append(f"sos_eos {'2-D' if 's2' in r else '1-D'} len={len(r.get('s1', r.get('s2')))} "
                     f"sos={'y' if case['sos'] is not None else 'n'} eos={'y' if case['eos'] is not None else 'n'}")
        return t

    def shrink(self, case):
        if case["kind"] == "dataset":
            for i in range(len(case["utts"])):
                c = copy.deepcopy(case)
                del c["utts"][i]
                yield c
            for k in ("layout", "hyp", "lang"):
                if k in case:
                    c = copy.deepcopy(case)
                    del c[k]
                    yield c
            for k in case.get("cfg", {}):
                c = copy.deepcopy(case)
                del c["cfg"][k]
                yield c
            for k in case.get("layout", {}):
                c = copy.deepcopy(case)
                del c["layout"][k]
                yield c
            return
        if case["kind"] in ("history", "info"):
            for k in ("stdout", "explicit_defaults"):
                if case.get(k):
                    c = copy.deepcopy(case)
                    del c[k]
                    yield c
            for k in case.get("cfg", {}):
                c = copy.deepcopy(case)
                del c["cfg"][k]
                yield c
            for k in case.get("layout", {}):
                c = copy.deepcopy(case)
                del c["layout"][k]
                yield c
            for i in range(len(case["utts"])):
                c = copy.deepcopy(case)
                del c["utts"][i]
                yield c
            if case["kind"] == "history":
                for i in range(len(case["calls"])):
                    if len(case["calls"]) > 1:
                        c = copy.deepcopy(case)
                        del c["calls"][i]
                        yield c
                for k in ("cfg", "layout"):
                    if k in case:
                        c = copy.deepcopy(case)
                        del c[k]
                        yield c
            for s in ("ali", "ref"):
                if s in case["dirs"]:
                    c = copy.deepcopy(case)
                    c["dirs"] = [x for x in c["dirs"] if x != s]
                    for u in c["utts"]:
                        u[s] = None
                    yield c
            for i, u in enumerate(case["utts"]):
                for s, k in (("ali", "vec"), ("ref", "d1"), ("ref", "d2")):
                    if u.get(s) and u[s].get(k):
                        for j in range(len(u[s][k])):
                            c = copy.deepcopy(case)
                            del c["utts"][i][s][k][j]
                            if s == "ali" and len(c["utts"][i]["feat"]["dims"]) == 2 and c["utts"][i]["feat"]["dims"][0] > 0:
                                c2 = copy.deepcopy(c)
                                c2["utts"][i]["feat"]["dims"][0] -= 1
                                yield c2
                            yield c
        elif case["kind"] == "sos_eos":
            r = case["ref"]
            k = "s1" if "s1" in r else "s2"
            for j in range(len(r[k])):
                c = copy.deepcopy(case)
                del c["ref"][k][j]
                yield c
            for s in ("sos", "eos"):
                if case[s] is not None:
                    c = copy.deepcopy(case)
                    c[s] = None
                    yield c


CHECK = C12()
