"""C12 — data-directory validation accepts exactly well-formed directories; fixes stick.

Three kinds of cases:

* ``history``: a directory (<= 4 utterances, written with torch.save under /tmp) with injected
  defects, and a sequence of ``validate_spect_data_set(data_set, fix)`` calls on it. After every call
  the accept/reject class and the FULL content of the directory are read back and compared with the
  Lean model (`run`); the property is evaluated on the implementation's own directories with the
  Lean spec as oracle (`WellFormed`, `repair`).
* ``info``: the same directories through the command ``get-torch-spect-data-dir-info`` with
  ``--strict`` / ``--fix k`` / neither; the report is compared with the model's one-pass report and
  with the spec's recount of what the implementation left on disk.
* ``sos_eos``: ``SpectDataSet`` / ``LangDataSet`` loading a reference with sos/eos configured and
  writing it back as a hypothesis.

The Lean side never sees a file: the harness reads every tensor back from disk (also the initial
state, so dtype wrap-arounds such as -1 -> 255 in uint8 are what the model is given).
"""
import contextlib
import copy
import io
import itertools
import os
import shutil
import tempfile
import warnings

from common.framework import PropertyCheck

import c12_dirs as D

TOLS = [None, 0, 1, 2, 3]


def norm_fix(f):
    """The python-level `fix` argument -> the model's Option Nat (True = 1, False = None)."""
    if f is True:
        return 1
    if f is False:
        return None
    return f


@contextlib.contextmanager
def tmpdir():
    d = tempfile.mkdtemp(prefix="verif-c12-", dir="/tmp")
    try:
        yield d
    finally:
        shutil.rmtree(d, ignore_errors=True)


def file_status(before, after, expected):
    """Per file of one utterance: 'same' | 'repaired' | 'other'."""
    out = {}
    for s in D.SUBDIRS:
        if after[s] == before[s]:
            out[s] = "same"
        elif after[s] == expected[s]:
            out[s] = "repaired"
        else:
            out[s] = "other"
    return out


class C12(PropertyCheck):
    pid = "C12"
    title = "Data-directory validation accepts exactly well-formed directories; fixes stick"
    rule = ("directories of <= 4 utterances written with torch.save; every single injected defect x every "
            "tolerance (None,0..3) x every defect size 1..4 enumerated, plus random subsets of the 20 defects "
            "(dtype, ndim, width, non-tensor, alignment +-k, mixed 1-D/2-D, (R,w!=3), half-open start/end, "
            "overshoot k, start beyond T, reversed, negative token, missing files) and validate/fix/validate "
            "histories; the info command in modes none/--strict/--fix k; sos/eos round trips over all "
            "transcripts of length <= 2 (1-D and 2-D, empty included). non-trivial: >= 1 injected defect "
            "or all three sub-directories in use; distinct by the whole case")
    assumptions = [
        "no GPU in the sandbox: the CUDA clauses (condition 1, repair 1) exist only as a device tag in the "
        "Lean model and are never exercised against the implementation",
        "torch.save/torch.load round-trip tensors (dtype, shape, content); a view saved with torch.save "
        "loads back as the view",
        "utterance discovery (prefix/suffix filtering, intersection over sub-directories, sorted order) is "
        "stated in python (c12_dirs.discovered), not in Lean",
        "non-tensor alignment/reference files, 0-D / >=3-D references in info-only mode, float alignments "
        "in the info report and negative `fix` values are outside the model",
    ]
    exhaustive = {"quick": False, "thorough": False}
    quick_budget_s = 150
    thorough_budget_s = 900

    def __init__(self):
        self._stash = {}

    # ------------------------------------------------------------------ generators
    def cases(self, rng, tier):
        big = tier != "quick"
        # --- sos/eos round trips: exhaustive over short transcripts
        toks = [0, 1]
        seqs1 = [list(p) for n in range(0, 3) for p in itertools.product(toks, repeat=n)]
        for via in ("spect", "lang"):
            for to in (False, True):
                for sos, eos in ((None, None), (7, None), (None, 8), (7, 8), (-2, -3)):
                    for t in seqs1:
                        yield {"kind": "sos_eos", "via": via, "tokens_only": to, "sos": sos, "eos": eos,
                               "ref": {"s1": t}}
                        yield {"kind": "sos_eos", "via": via, "tokens_only": to, "sos": sos, "eos": eos,
                               "ref": {"s2": [[x, i, i + 1] if i % 2 == 0 else [x, -1, -1]
                                              for i, x in enumerate(t)]}}
        # hypotheses that contain the symbols (strip semantics): correspondence only
        for _ in range(40 if not big else 200):
            n = rng.randrange(0, 6)
            t = [rng.choice([0, 1, 7, 8]) for _ in range(n)]
            yield {"kind": "hyp", "sos": rng.choice([None, 7]), "eos": rng.choice([None, 8]),
                   "hyp": rng.choice([{"s1": t}, {"s2": [[x, -1, -1] for x in t]}])}

        # --- single defects: every defect x tolerance x size, on 1..3 utterances
        sizes = [1, 2, 3, 4]
        for (nm, need, _), tol, k in itertools.product(D.DEFECTS, TOLS, sizes):
            if not big and k == 4 and nm not in ("ali_long", "overshoot"):
                continue
            has_ali = need == "ali" or rng.random() < 0.5
            ref_kind = 2 if need == "ref2" else (rng.choice([1, 2]) if need == "ref" else rng.choice([0, 1, 2]))
            n = rng.randrange(1, 4)
            base = D.base_dir(rng, n, has_ali, ref_kind)
            d = D.inject(rng, base, [nm], k)
            calls = [tol, None] if tol is not None else [None, rng.choice([0, 1, 2, 3]), None]
            yield self._mk_history(d, calls)
        # --- well-formed directories, every option cell
        for has_ali, ref_kind, n in itertools.product((False, True), (0, 1, 2), (0, 1, 2, 4)):
            d = D.base_dir(rng, n, has_ali, ref_kind)
            d["defects"] = []
            yield self._mk_history(d, [None, rng.choice([0, 1, 2, 3]), None])
        # --- pairs of defects (quick: sample; thorough: all pairs)
        pairs = list(itertools.combinations(D.DEFECT_NAMES, 2))
        if not big:
            pairs = rng.sample(pairs, 60)
        for a, b in pairs:
            base = D.base_dir(rng, rng.randrange(1, 4), True, 2 if rng.random() < 0.7 else 1)
            d = D.inject(rng, base, [a, b], rng.choice(sizes))
            yield self._mk_history(d, self._calls(rng))
        # --- random subsets, random histories, dataset views, layouts, the info command
        n_rand = 350 if not big else 4000
        for i in range(n_rand):
            has_ali = rng.random() < 0.7
            ref_kind = rng.choice([0, 1, 2, 2, 2])
            n = rng.choice([1, 2, 2, 3, 3, 4])
            base = D.base_dir(rng, n, has_ali, ref_kind, max_T=4 if not big else 6)
            cand = [nm for nm, need, _ in D.DEFECTS if D.applicable(nm, need, has_ali, ref_kind)]
            m = rng.choice([0, 1, 1, 2, 2, 3, 4, 6])
            names = [rng.choice(cand) for _ in range(m)]
            # repairable defects are over-sampled so that accepted fix runs are frequent
            if rng.random() < 0.5:
                rep = [x for x in ("ali_long", "overshoot", "half_start", "half_end") if x in cand]
                names = [rng.choice(rep) for _ in range(rng.randrange(1, 4))] if rep else names
                if rng.random() < 0.5 and rep:
                    for u in base["utts"]:
                        for s in ("ali", "ref"):
                            if u[s] is not None and rng.random() < 0.5:
                                u[s]["dtype"] = rng.choice(D.NARROW[1:])
            d = D.inject(rng, base, names, rng.choice(sizes))
            c = rng.random()
            if c < 0.55:
                case = self._mk_history(d, self._calls(rng))
                if rng.random() < 0.25:
                    case["cfg"] = {"sos": rng.choice([None, 5, 5]), "eos": rng.choice([None, 6, 6]),
                                   "tokens_only": rng.random() < 0.3}
                if rng.random() < 0.2:
                    case["layout"] = {"prefix": rng.choice(["", "p-"]), "suffix": rng.choice([".pt", ".x", ""]),
                                      "stray": [["feat", "zz.notes"], ["ref", "README"]]}
                    if case["layout"]["suffix"] == "" and case["layout"]["prefix"] == "":
                        case["layout"]["stray"] = []
                yield case
            else:
                mode = rng.choice(["info", "strict", "fix", "fix"])
                case = {"kind": "info", "utts": d["utts"], "dirs": d["dirs"], "defects": d["defects"],
                        "mode": mode, "fix": rng.choice([None, 0, 1, 2, 3]) if mode == "fix" else None}
                if mode == "info":
                    # without validation the report is only specified on data that iterates cleanly
                    self._tame_for_info(case)
                yield case

    def _calls(self, rng):
        c = rng.random()
        k = rng.choice([0, 1, 2, 3])
        if c < 0.3:
            return [k, None]
        if c < 0.5:
            return [None, k, None]
        if c < 0.7:
            return [k, k, None]
        if c < 0.9:
            return [rng.choice([0, 1]), rng.choice([2, 3]), None, rng.choice([0, 3])]
        return [rng.choice([True, False]), None]

    def _mk_history(self, d, calls):
        return {"kind": "history", "utts": d["utts"], "dirs": d["dirs"], "defects": d.get("defects", []),
                "calls": calls}

    def _tame_for_info(self, case):
        for u in case["utts"]:
            f = u["feat"]
            f["tensor"] = True
            if u.get("ali") is not None:
                a = u["ali"]
                if "nd" in a:
                    u["ali"] = {"dtype": "i64", "dev": "cpu", "vec": []}
                elif a["dtype"] in ("f16", "f32", "f64", "bool"):
                    a["dtype"] = "i32"
            if u.get("ref") is not None:
                r = u["ref"]
                if "nd" in r:
                    u["ref"] = {"dtype": r["dtype"], "dev": "cpu", "d1": []}
                if r["dtype"] in ("f16", "f32", "f64", "bool"):
                    u["ref"]["dtype"] = "i32"

    # ------------------------------------------------------------------ implementation
    def _dataset(self, root, case):
        from pydrobert.torch import data
        cfg = case.get("cfg", {})
        layout = case.get("layout", {})
        params = data.SpectDataParams(sos=cfg.get("sos"), eos=cfg.get("eos"))
        return data.SpectDataSet(
            root, params=params, suppress_alis=False, tokens_only=cfg.get("tokens_only", False),
            file_prefix=layout.get("prefix", ""), file_suffix=layout.get("suffix", ".pt"),
            warn_on_missing=False)

    def run_impl(self, case):
        self._stash.pop(self.key(case), None)
        with warnings.catch_warnings():
            warnings.simplefilter("ignore")
            if case["kind"] == "history":
                return self._run_history(case)
            if case["kind"] == "info":
                return self._run_info(case)
            if case["kind"] == "sos_eos":
                return self._run_sos_eos(case)
            return self._run_hyp(case)

    def _untouched(self, root, case, ids, snap0):
        """Files that do not belong to a discovered utterance must be byte-identical."""
        layout = case.get("layout", {})
        mine = {D.fname(layout, n) for n in ids}
        snap = D.snapshot(root, case)
        for s, files in snap0.items():
            for nm, b in files.items():
                if s in D.SUBDIRS and nm in mine:
                    continue
                if snap.get(s, {}).get(nm) != b:
                    return False
        for s, files in snap.items():
            if s in ("out",):
                continue
            if set(files) != set(snap0.get(s, {})):
                return False
        return set(snap) - {"out"} == set(snap0)

    def _run_history(self, case):
        from pydrobert.torch import data
        ids, used = D.discovered(case)
        with tmpdir() as root:
            D.write_dir(root, case)
            snap0 = D.snapshot(root, case)
            ds = self._dataset(root, case)
            obs = {"utt_ids": list(ds.utt_ids), "has_ali": bool(ds.has_ali), "has_ref": bool(ds.has_ref)}
            if obs["utt_ids"] != ids:
                return obs  # discovery differs: nothing below is comparable
            init = D.read_utts(root, case, ids, used)
            dig0 = D.feat_digest(root, case, ids)
            steps = []
            for fix in case["calls"]:
                st = {}
                try:
                    data.validate_spect_data_set(ds, fix)
                    st["ok"] = True
                    st["err"] = None
                except Exception as e:
                    st["ok"] = False
                    st["err"] = type(e).__name__
                st["disk"] = D.read_utts(root, case, ids, used)
                st["feat_content_same"] = D.feat_digest(root, case, ids) == dig0
                st["others_untouched"] = self._untouched(root, case, ids, snap0)
                steps.append(st)
            obs["steps"] = steps
            self._stash[self.key(case)] = {"init": init, "disks": [s["disk"] for s in steps]}
            return obs

    def _run_info(self, case):
        from pydrobert.torch import command_line
        ids, used = D.discovered(case)
        with tmpdir() as root:
            D.write_dir(root, case)
            snap0 = D.snapshot(root, case)
            init = D.read_utts(root, case, ids, used)
            os.makedirs(os.path.join(root, "out"))
            out = os.path.join(root, "out", "info.txt")
            args = [root, out, "--file-suffix", ".pt"]
            if case["mode"] == "strict":
                args.append("--strict")
            elif case["mode"] == "fix":
                args.append("--fix")
                if case["fix"] is not None:
                    args.append(str(case["fix"]))
            obs = {}
            try:
                with contextlib.redirect_stderr(io.StringIO()):
                    rc = command_line.get_torch_spect_data_dir_info(args)
                obs["ok"] = rc == 0
                obs["err"] = None if rc == 0 else f"exit {rc}"
            except Exception as e:
                obs["ok"] = False
                obs["err"] = type(e).__name__
            obs["disk"] = D.read_utts(root, case, ids, used)
            obs["others_untouched"] = self._untouched(root, case, ids, snap0)
            if obs["ok"]:
                rep, keys = {}, []
                with open(out) as f:
                    for line in f:
                        k, v = line.split()
                        keys.append(k)
                        pre, _, idx = k.rpartition("_")
                        if pre in ("count", "segs", "rcount", "rsegs") and idx.isdigit():
                            k = f"{pre}_{int(idx)}"
                        rep[k] = int(v)
                obs["report"] = rep
                obs["keys_sorted"] = keys == sorted(keys)
                # zero padding: class keys of one family have equal length, hence sort by index
                fam = {}
                for k in keys:
                    pre, _, idx = k.rpartition("_")
                    if pre in ("count", "segs", "rcount", "rsegs") and idx.isdigit():
                        fam.setdefault(pre, []).append(idx)
                obs["padding_ok"] = all(len({len(i) for i in v}) == 1 and [int(i) for i in v] == list(range(len(v)))
                                        for v in fam.values())
            self._stash[self.key(case)] = {"init": init, "disk": obs["disk"]}
            return obs

    def _seq_tensor(self, seq):
        import torch
        if "s1" in seq:
            return torch.tensor(seq["s1"], dtype=torch.long).reshape(len(seq["s1"]))
        return torch.tensor(seq["s2"], dtype=torch.long).reshape(len(seq["s2"]), 3)

    def _seq_desc(self, t):
        if t.dim() == 1:
            return {"s1": D.ints(t)}
        return {"s2": [[int(v) for v in row] for row in t.tolist()]}

    def _run_sos_eos(self, case):
        import torch
        from pydrobert.torch import data
        with tmpdir() as root:
            ref = self._seq_tensor(case["ref"])
            if case["via"] == "spect":
                os.makedirs(os.path.join(root, "feat"))
                os.makedirs(os.path.join(root, "ref"))
                torch.save(torch.zeros(3, 2), os.path.join(root, "feat", "a.pt"))
                torch.save(ref, os.path.join(root, "ref", "a.pt"))
                ds = data.SpectDataSet(root, params=data.SpectDataParams(sos=case["sos"], eos=case["eos"]),
                                       suppress_alis=True, tokens_only=case["tokens_only"])
                hyp_dir = os.path.join(root, "hyp")
            else:
                os.makedirs(os.path.join(root, "ref"))
                torch.save(ref, os.path.join(root, "ref", "a.pt"))
                ds = data.LangDataSet(os.path.join(root, "ref"),
                                      params=data.LangDataParams(sos=case["sos"], eos=case["eos"]),
                                      tokens_only=case["tokens_only"])
                hyp_dir = os.path.join(root, "hyp")
            item = ds[0]
            loaded = item[1] if case["via"] == "spect" else item
            obs = {"loaded": self._seq_desc(loaded), "dtype": D.dtype_tag(loaded.dtype)}
            ds.write_hyp(0, loaded, hyp_dir)
            back = torch.load(os.path.join(hyp_dir, "a.pt"))
            obs["written"] = self._seq_desc(back)
            return obs

    def _run_hyp(self, case):
        import torch
        from pydrobert.torch._datasets import _write_hyp
        with tmpdir() as root:
            p = os.path.join(root, "h.pt")
            _write_hyp(self._seq_tensor(case["hyp"]), p, case["sos"], case["eos"])
            return {"written": self._seq_desc(torch.load(p))}

    # ------------------------------------------------------------------ model
    def model_request(self, case):
        if case["kind"] == "sos_eos":
            return {"op": "c12.sos_eos", "case": {"ref": case["ref"], "sos": case["sos"], "eos": case["eos"],
                                                  "tokens_only": case["tokens_only"]}}
        if case["kind"] == "hyp":
            return {"op": "c12.write_hyp", "case": {"hyp": case["hyp"], "sos": case["sos"], "eos": case["eos"]}}
        st = self._stash.get(self.key(case))
        if st is None:
            return None
        if case["kind"] == "history":
            return {"op": "c12.history", "case": {"utts": st["init"], "calls": [norm_fix(f) for f in case["calls"]],
                                                  "impl_disks": st["disks"]}}
        return {"op": "c12.info", "case": {"utts": st["init"], "mode": case["mode"], "fix": case["fix"],
                                           "impl_disk": st["disk"]}}

    # ------------------------------------------------------------------ correspondence
    def compare(self, case, impl, model):
        if "error" in impl:
            return [f"harness/implementation raised outside a validation call: {impl['error']}: {impl.get('message')}"]
        out = []
        if case["kind"] == "history":
            for i, (a, b) in enumerate(zip(impl["steps"], model["steps"])):
                if a["ok"] != b["ok"]:
                    out.append(f"call {i} (fix={case['calls'][i]}): impl {'returns' if a['ok'] else 'raises ' + str(a['err'])}, "
                               f"model {'returns' if b['ok'] else 'raises ' + str(b['err'])}")
                    break  # later calls start from different directories
                if a["disk"] != b["disk"]:
                    out.append(f"call {i} (fix={case['calls'][i]}): directory afterwards differs: impl={a['disk']} model={b['disk']}")
                    break
        elif case["kind"] == "info":
            if impl["ok"] != model["ok"]:
                out.append(f"info {case['mode']} fix={case['fix']}: impl ok={impl['ok']} ({impl['err']}), model ok={model['ok']} ({model['err']})")
            elif impl["disk"] != model["disk"]:
                out.append(f"info: directory afterwards differs: impl={impl['disk']} model={model['disk']}")
            elif impl["ok"] and impl["report"] != model["report"]:
                out.append(f"info: report differs: impl={impl['report']} model={model['report']}")
        elif case["kind"] == "sos_eos":
            if impl["loaded"] != model["loaded"]:
                out.append(f"_load_ref: impl={impl['loaded']} model={model['loaded']}")
            if impl["written"] != model["written"]:
                out.append(f"_write_hyp: impl={impl['written']} model={model['written']}")
        else:
            if impl["written"] != model["written"]:
                out.append(f"_write_hyp: impl={impl['written']} model={model['written']}")
        return out

    # ------------------------------------------------------------------ the property on the implementation
    def predicate(self, case, impl, model):
        kind = case["kind"]
        if kind == "hyp":
            # write_hyp's docstring: everything up to and including the LAST sos and everything from
            # the FIRST eos on is removed; the Lean `writeHyp` is that statement
            if "error" in impl:
                return [(f"_write_hyp raised {impl['error']}: {impl.get('message')}", None)]
            if model is not None and impl["written"] != model["written"]:
                return [(f"_write_hyp wrote {impl['written']}, documented stripping of {case['hyp']} with "
                         f"sos={case['sos']} eos={case['eos']} gives {model['written']}", "C12.write_hyp.strip")]
            return []
        if kind == "sos_eos":
            return self._pred_sos_eos(case, impl, model)
        if "error" in impl:
            return [(f"raised outside a validation call: {impl['error']}: {impl.get('message')}", None)]
        fails = []
        if kind == "history":
            ids, _ = D.discovered(case)
            if impl["utt_ids"] != ids:
                return [(f"utterance discovery: data set lists {impl['utt_ids']}, files present for {ids}", None)]
            if model is None:
                return fails
            st = self._stash.get(self.key(case))
            before = st["init"] if st else None
            for i, (a, o) in enumerate(zip(impl["steps"], model["oracle"])):
                fix = case["calls"][i]
                fails += self._pred_call(f"call {i} (fix={fix})", a["ok"], a["err"], before, a["disk"], o,
                                         "validate")
                if not a["feat_content_same"]:
                    fails.append((f"call {i}: feature content changed", None))
                if not a["others_untouched"]:
                    fails.append((f"call {i}: a file outside the data set's utterances was modified", None))
                before = a["disk"]
            return fails
        # info
        if model is None:
            return fails
        st = self._stash.get(self.key(case))
        if case["mode"] != "info":
            o = {"expected": model["expected"], "expected_wf": model["expected_wf"], "after_wf": None}
            neg_ali = any(u["ali"] is not None and any(v < 0 for v in u["ali"].get("vec", []))
                          for u in model["expected"])
            if not (neg_ali and model["expected_wf"]):  # a negative alignment class is a ValueError of the report
                fails += self._pred_call(f"info --{case['mode']} {case['fix']}", impl["ok"], impl["err"],
                                         st["init"], impl["disk"], o, "info")
        elif impl["disk"] != st["init"]:
            fails.append(("info without --strict/--fix modified the directory", None))
        if not impl["others_untouched"]:
            fails.append(("info: a file outside the data set's utterances was modified", None))
        if impl["ok"]:
            if impl["report"] != model["impl_recount"]:
                diff = {k: (impl["report"].get(k), model["impl_recount"].get(k))
                        for k in set(impl["report"]) | set(model["impl_recount"])
                        if impl["report"].get(k) != model["impl_recount"].get(k)}
                fails.append((f"report is not the recount of the stored tensors: (reported, recount) = {diff}",
                              "C12.info.recount"))
            if not impl["keys_sorted"] or not impl["padding_ok"]:
                fails.append(("report keys are not sorted / class indices not zero-padded to equal width", None))
        return fails

    def _pred_call(self, label, ok, err, before, after, o, entry):
        fails = []
        if ok and not o["expected_wf"]:
            fails.append((f"{label}: returns normally although the directory, documented repairs applied, is not "
                          f"well-formed", f"C12.{entry}.accepts_ill_formed"))
        if not ok and o["expected_wf"]:
            fails.append((f"{label}: raises {err} although the directory, documented repairs applied, is well-formed",
                          f"C12.{entry}.rejects_well_formed"))
        if not ok and err != "ValueError":
            fails.append((f"{label}: raises {err}, documented is ValueError", f"C12.{entry}.error_class"))
        if ok:
            if after != o["expected"]:
                fails.append((f"{label}: directory after an accepted run is not the documented repairs applied to "
                              f"the directory before: after={after} expected={o['expected']}",
                              f"C12.{entry}.undocumented_change"))
            if o.get("after_wf") is False:
                fails.append((f"{label}: accepted, but what is on disk now is not well-formed",
                              f"C12.{entry}.accepted_ill_formed_after"))
        else:
            # whatever was written before the raise must be a documented repair, file by file
            for j, (b, a, e) in enumerate(zip(before, after, o["expected"])):
                stt = file_status(b, a, e)
                bad = [s for s, v in stt.items() if v == "other"]
                if bad:
                    fails.append((f"{label}: raised, and file(s) {bad} of utterance {j} were changed to something "
                                  f"that is not the documented repair: before={b} after={a}",
                                  f"C12.{entry}.undocumented_change"))
        return fails

    def _pred_sos_eos(self, case, impl, model):
        if "error" in impl:
            return [(f"loading a reference with sos={case['sos']} eos={case['eos']} raised {impl['error']}: "
                     f"{impl.get('message')}", "C12.load_ref.raises")]
        fails = []
        ref = case["ref"]
        two_d = "s2" in ref and not case["tokens_only"]
        bare = ref["s2"] if two_d else (ref["s1"] if "s1" in ref else [r[0] for r in ref["s2"]])
        wrap = (lambda x: [x, -1, -1]) if two_d else (lambda x: x)
        exp = ([wrap(case["sos"])] if case["sos"] is not None else []) + bare + \
              ([wrap(case["eos"])] if case["eos"] is not None else [])
        key = "s2" if two_d else "s1"
        if impl["loaded"] != {key: exp}:
            fails.append((f"reference read with sos={case['sos']} eos={case['eos']} is {impl['loaded']}, "
                          f"expected {exp}", "C12.load_ref.symbols"))
        if impl["dtype"] != "i64":
            fails.append((f"loaded reference has dtype {impl['dtype']}", None))
        if impl["written"] != {key: bare}:
            fails.append((f"written hypothesis {impl['written']} is not the bare transcript {bare}",
                          "C12.write_hyp.roundtrip"))
        if model is not None and (model["loaded"] != {key: exp} or model["written"] != {key: bare}):
            fails.append(("internal: Lean spec disagrees with the python statement of the round trip", None))
        return fails

    # ------------------------------------------------------------------ bookkeeping
    def nontrivial(self, case, impl):
        if case["kind"] in ("history", "info"):
            return bool(case.get("defects")) or len(case["dirs"]) == 3
        if case["kind"] == "sos_eos":
            return case["sos"] is not None or case["eos"] is not None
        return True

    def tags(self, case, impl):
        t = [f"kind={case['kind']}"]
        if case["kind"] in ("history", "info"):
            t.append(f"n_utts={len(case['utts'])}")
            t.append(f"n_defects={min(len(case.get('defects', [])), 5)}")
            for dname in case.get("defects", []):
                t.append("defect=" + dname.split("@")[0])
            t.append("dirs=" + "+".join(case["dirs"]))
        if case["kind"] == "history" and isinstance(impl, dict) and "steps" in impl:
            for f, s in zip(case["calls"], impl["steps"]):
                t.append(f"call fix={f}: {'accept' if s['ok'] else 'reject'}")
            if any(s["ok"] and f is not None and f is not False and i > 0 and s["disk"] != impl["steps"][i - 1]["disk"]
                   or (s["ok"] and f is not None and i == 0)
                   for i, (f, s) in enumerate(zip(case["calls"], impl["steps"]))):
                t.append("accepted fix run")
            if "cfg" in case:
                t.append("view with sos/eos/tokens_only")
            if "layout" in case:
                t.append("non-default prefix/suffix")
        if case["kind"] == "info":
            t.append(f"info mode={case['mode']} fix={case['fix']}")
            if isinstance(impl, dict) and "ok" in impl:
                t.append("info " + ("accept" if impl["ok"] else "reject"))
        if case["kind"] == "sos_eos":
            r = case["ref"]
            t.append(f"sos_eos {'2-D' if 's2' in r else '1-D'} len={len(r.get('s1', r.get('s2')))} "
                     f"sos={'y' if case['sos'] is not None else 'n'} eos={'y' if case['eos'] is not None else 'n'}")
        return t

    def shrink(self, case):
        if case["kind"] in ("history", "info"):
            for i in range(len(case["utts"])):
                c = copy.deepcopy(case)
                del c["utts"][i]
                yield c
            if case["kind"] == "history":
                for i in range(len(case["calls"])):
                    if len(case["calls"]) > 1:
                        c = copy.deepcopy(case)
                        del c["calls"][i]
                        yield c
                for k in ("cfg", "layout"):
                    if k in case:
                        c = copy.deepcopy(case)
                        del c[k]
                        yield c
            for s in ("ali", "ref"):
                if s in case["dirs"]:
                    c = copy.deepcopy(case)
                    c["dirs"] = [x for x in c["dirs"] if x != s]
                    for u in c["utts"]:
                        u[s] = None
                    yield c
            for i, u in enumerate(case["utts"]):
                for s, k in (("ali", "vec"), ("ref", "d1"), ("ref", "d2")):
                    if u.get(s) and u[s].get(k):
                        for j in range(len(u[s][k])):
                            c = copy.deepcopy(case)
                            del c["utts"][i][s][k][j]
                            if s == "ali" and len(c["utts"][i]["feat"]["dims"]) == 2 and c["utts"][i]["feat"]["dims"][0] > 0:
                                c2 = copy.deepcopy(c)
                                c2["utts"][i]["feat"]["dims"][0] -= 1
                                yield c2
                            yield c
        elif case["kind"] == "sos_eos":
            r = case["ref"]
            k = "s1" if "s1" in r else "s2"
            for j in range(len(r[k])):
                c = copy.deepcopy(case)
                del c["ref"][k][j]
                yield c
            for s in ("sos", "eos"):
                if case[s] is not None:
                    c = copy.deepcopy(case)
                    c[s] = None
                    yield c


CHECK = C12()
