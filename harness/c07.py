"""C07 — sequence scores, random walks and greedy CTC decoding match their definitions.

Correspondence: the real `sequence_log_probs` (tensor and PackedSequence input, any `dim`),
`RandomWalk` (with `torch.multinomial` replaying chosen tokens so that every path of a tiny
language model is walked), `SequentialLanguageModelDistribution` (`sample`, `log_prob`,
`enumerate_support`, `_validate_sample`) and `ctc_greedy_search` are run in-process and compared
with the Lean model; the property itself is evaluated on the implementation's output with the Lean
spec as oracle.

Streams: *exact* — `log_softmax` (trusted primitive) replaced by the identity, values on a dyadic
grid, equality of rationals; *tol* — real `log_softmax`, torch's own values handed to the model as
exact rationals, results compared with a tolerance.
"""
import itertools
import math
from fractions import Fraction

from common.framework import PropertyCheck, frac_str

import c07_tools as tl

ABS_TOL = 2e-4
REL_TOL = 1e-5


def close(a, b, exact):
    """a, b: 'n/d' strings (or '-inf')"""
    if a == b:
        return True
    if a in ("-inf", "inf", "nan") or b in ("-inf", "inf", "nan"):
        return False
    fa, fb = Fraction(a), Fraction(b)
    if exact:
        return fa == fb
    return abs(fa - fb) <= ABS_TOL + REL_TOL * max(abs(fa), abs(fb))


def all_close(xs, ys, exact):
    return len(xs) == len(ys) and all(close(x, y, exact) for x, y in zip(xs, ys))


def dyadic_logp(rng, lo=-24 * 8, hi=0):
    """a 'log-probability' on the 1/8 grid in [-24, 0]"""
    return frac_str(Fraction(rng.randint(lo, hi), 8))


def rand_logit(rng):
    return frac_str(Fraction(rng.randint(-4 * 64, 4 * 64), 64))


def prodl(l):
    out = 1
    for x in l:
        out *= x
    return out


def shape_of(nested):
    s = []
    x = nested
    while isinstance(x, list):
        s.append(len(x))
        if not x:
            break
        x = x[0]
    return s


def lm_tables(rng, V, N, T, eos, exact, same=False, probs=False):
    """per batch element: dict hist_key -> row for every eos-free history shorter than T"""
    tabs = []
    for n in range(N):
        if same and n:
            tabs.append(dict(tabs[0]))
            continue
        tab = {}
        for L in range(0, max(T, 1)):
            for h in itertools.product(range(V), repeat=L):
                if eos is not None and eos in h:
                    continue
                tab[tl.hist_key(h)] = lm_row(rng, V, exact, probs)
        tabs.append(tab)
    return tabs


def lm_row(rng, V, exact, probs=False):
    if probs:
        # dyadic conditional probabilities (sixteenths, all positive), as logits log(p)
        cuts = sorted(rng.sample(range(1, 16), V - 1)) if V > 1 else []
        parts = [b - a for a, b in zip([0] + cuts, cuts + [16])]
        return [frac_str(Fraction(p, 16)) for p in parts]
    if exact:
        return [dyadic_logp(rng, -6 * 8, 0) for _ in range(V)]
    return [rand_logit(rng) for _ in range(V)]


def tables_json(tabs, exact, from_probs=False):
    """-> driver format with the implementation's own log_softmax applied to every row"""
    out = []
    for tab in tabs:
        keys = list(tab.keys())
        rows = [tab[k] for k in keys]
        if from_probs:
            rows = probs_to_logits(rows)
        lrows = tl.lsm_rows(rows, exact)
        out.append([{"h": [int(x) for x in k.split(",")] if k else [], "row": r}
                    for k, r in zip(keys, lrows)])
    return out


def probs_to_logits(rows):
    import torch
    t = tl.from_fracs(rows).log()
    return tl.tensor_fracs(t)


class C07(PropertyCheck):
    pid = "C07"
    rule = ("six case kinds: seq (all hyp ranks 1-4, every dim incl. negative, eos set/unset/absent/"
            "out of vocabulary, OOV tokens, sizes 0-3), packed (every length pattern for N<=4 (quick: "
            "N<=3), sorted and unsorted, dim 0/1/-1/-2), walk (every canonical draw sequence of tiny "
            "LMs with V<=3, max_iters<=3(4), N<=2, eos each/unset, batch_size set/unset), dist "
            "(support, log_prob of every support row, validation of rows of every length), sample "
            "(sample shapes (), (M,), (M1,M2), batch shape set/unset), greedy (all blank indices, "
            "lens, layouts, is_probs both ways). non-trivial: an eos strictly inside the tensor / a "
            "path that ended before the step limit / >= 1 repeated or blank frame removed; distinct "
            "by the full case")
    assumptions = [
        "log_softmax/softmax are trusted primitives: exact stream replaces log_softmax by the identity "
        "on dyadic values, tolerance stream hands torch's own log_softmax values to the model",
        "torch.multinomial is replaced by a replay of chosen tokens (any token of positive probability)",
        "float rounding is not modelled; tolerance stream compares with abs 2e-4 + rel 1e-5",
        "the language model is a table from histories to rows, with a threaded state that is checked",
        "argmax ties in greedy decoding are flagged and excluded from label equality",
    ]
    exhaustive = {"quick": False, "thorough": False}
    quick_budget_s = 150
    thorough_budget_s = 1000

    # ------------------------------------------------------------------ generators
    def cases(self, rng, tier):
        gens = [self.gen_dist(rng, tier), self.gen_sample(rng, tier), self.gen_walk(rng, tier),
                self.gen_seq(rng, tier), self.gen_packed(rng, tier), self.gen_greedy(rng, tier)]
        # round robin so that a time budget cuts all kinds evenly
        live = list(gens)
        while live:
            nxt = []
            for g in live:
                got = 0
                try:
                    for _ in range(8):
                        yield next(g)
                        got += 1
                except StopIteration:
                    continue
                nxt.append(g)
            live = nxt

    # ---- seq
    def gen_seq(self, rng, tier):
        n = {"quick": 420, "thorough": 4000, "search": 6000}[tier]
        # malformed: dim out of range
        for nd, dim in ((1, 1), (1, -2), (2, 2), (3, -4)):
            shape = [2] * nd
            yield self.mk_seq(rng, shape, 2, dim, None, True)
        for i in range(n):
            nd = rng.choice([1, 2, 2, 3, 3, 4])
            shape = [rng.choice([0, 1, 2, 2, 3, 3]) for _ in range(nd)]
            dim = rng.randrange(-nd, nd)
            d = dim % nd
            V = rng.choice([1, 2, 3, 4])
            eos_kind = rng.choice(["none", "in", "in", "in", "oov", "neg"])
            eos = {"none": None, "in": rng.randrange(V), "oov": V + rng.randrange(2), "neg": -1}[eos_kind]
            if shape[d] == 0 and eos is not None:
                # zero-size sequence dimension with eos set: _lens_from_eos raises (C01's finding, _string.py)
                eos = None
            yield self.mk_seq(rng, shape, V, dim, eos, exact=(i % 2 == 0))

    def mk_seq(self, rng, shape, V, dim, eos, exact):
        n = prodl(shape)
        toks = list(range(V)) + [-1, V, V + 2]
        w = [6] * V + [1, 1, 1]
        if eos is not None:
            toks.append(eos)
            w.append(5)
        hyp = [rng.choices(toks, w)[0] for _ in range(n)]
        logits = [dyadic_logp(rng) if exact else rand_logit(rng) for _ in range(n * V)]
        return {"kind": "seq", "shape": shape, "V": V, "dim": dim, "eos": eos, "exact": exact,
                "hyp": hyp, "logits": logits}

    # ---- packed
    def gen_packed(self, rng, tier):
        maxN, maxL = {"quick": (3, 3), "thorough": (4, 3), "search": (4, 4)}[tier]
        pats = []
        for N in range(1, maxN + 1):
            pats += list(itertools.product(range(1, maxL + 1), repeat=N))
        reps = {"quick": 1, "thorough": 4, "search": 6}[tier]
        k = 0
        for _ in range(reps):
            for lens in pats:
                lens = list(lens)
                is_sorted = all(a >= b for a, b in zip(lens, lens[1:]))
                for enforce in ([True, False] if is_sorted else [False]):
                    k += 1
                    dim = [1, 0, -1, -2][k % 4]
                    extra = rng.choice([0, 0, 1])
                    yield self.mk_packed(rng, lens, enforce, dim, rng.choice([1, 2, 3]), extra,
                                         exact=(k % 2 == 0))
        # malformed: hyp shorter than the longest sequence
        yield self.mk_packed(rng, [3, 1], True, 1, 2, -1, True)

    def mk_packed(self, rng, lens, enforce, dim, V, extra, exact):
        N, Tm = len(lens), max(lens)
        T = Tm + extra
        toks = list(range(V)) + [-1, V]
        hyp = [[rng.choices(toks, [6] * V + [1, 1])[0] for _ in range(T)] for _ in range(N)]
        logits = [[[dyadic_logp(rng) if exact else rand_logit(rng) for _ in range(V)]
                   for _ in range(Tm)] for _ in range(N)]
        return {"kind": "packed", "lens": lens, "enforce_sorted": enforce, "dim": dim, "V": V,
                "hyp": hyp, "logits": logits, "exact": exact}

    # ---- walk
    def canonical_draws(self, V, T, eos):
        """every draw sequence of length T in which everything after the first eos is eos"""
        out = []
        for s in itertools.product(range(V), repeat=T):
            if eos is not None and eos in s:
                i = s.index(eos)
                if any(x != eos for x in s[i:]):
                    continue
            out.append(list(s))
        return out

    def gen_walk(self, rng, tier):
        Tmax = {"quick": 3, "thorough": 4, "search": 4}[tier]
        budget = {"quick": 14, "thorough": 120, "search": 200}[tier]
        k = 0
        for V in (2, 3):
            for T in range(0, Tmax + 1):
                for eos in [None] + list(range(V)) + [-1]:
                    e = None if eos is None else eos % V
                    seqs = self.canonical_draws(V, T, e)
                    for N, batched in ((1, False), (1, True), (2, True), (3, True)):
                        if N == 1:
                            combos = [[s] for s in seqs]
                        else:
                            combos = [[rng.choice(seqs) for _ in range(N)] for _ in range(budget)]
                            if len(combos) > budget:
                                combos = rng.sample(combos, budget)
                        if eos == -1 or N == 3:
                            combos = combos[:max(2, budget // 4)]
                        for paths in combos:
                            k += 1
                            exact = (k % 2 == 0)
                            tabs = lm_tables(rng, V, N, T, e, exact)
                            draws = [[paths[n][t] for n in range(N)] for t in range(T)]
                            yield {"kind": "walk", "V": V, "N": N, "batched": batched, "eos": eos,
                                   "max_iters": T, "tables": tabs, "default": lm_row(rng, V, exact),
                                   "draws": draws, "exact": exact}

    # ---- dist
    def gen_dist(self, rng, tier):
        Tmax = {"quick": 3, "thorough": 4, "search": 4}[tier]
        reps = {"quick": 1, "thorough": 3, "search": 4}[tier]
        for _ in range(reps):
            for V in (2, 3):
                for T in range(1, Tmax + 1):
                    for eos in [None] + list(range(V)):
                        for N in (None, 2):
                            tabs = lm_tables(rng, V, N or 1, T, eos, False, probs=True)
                            yield {"kind": "dist", "V": V, "N": N, "eos": eos, "max_iters": T,
                                   "tables": tabs, "default": lm_row(rng, V, False, probs=True),
                                   "values": self.dist_values(rng, V, T, eos), "exact": False}

    def dist_values(self, rng, V, T, eos):
        """rows whose validity is asked: every length 1..T+1, with/without eos, OOV before/after eos"""
        vals = []
        for L in range(1, T + 2):
            for _ in range(3):
                s = [rng.randrange(V) for _ in range(L)]
                vals.append(s)
                if eos is not None:
                    s2 = list(s)
                    s2[rng.randrange(L)] = eos
                    vals.append(s2)
                    s3 = list(s2)
                    j = rng.randrange(L)
                    s3[j] = V + 1
                    vals.append(s3)
                else:
                    s3 = list(s)
                    s3[rng.randrange(L)] = rng.choice([-1, V])
                    vals.append(s3)
            if eos is not None:
                vals.append([eos] * L)
        return vals

    # ---- sample
    def gen_sample(self, rng, tier):
        reps = {"quick": 3, "thorough": 30, "search": 40}[tier]
        for r in range(reps):
            for V in (2, 3):
                for eos in [None] + list(range(V)):
                    for N in (None, 1, 2):
                        for shape in ([], [1], [2], [3], [2, 2]):
                            T = rng.choice([1, 2, 3])
                            M = prodl(shape)
                            seqs = self.canonical_draws(V, T, eos)
                            exact = bool(r % 2)
                            if N is None:
                                paths = [rng.choice(seqs) for _ in range(M)]
                                draws = [[paths[m][t] for m in range(M)] for t in range(T)]
                                tabs = lm_tables(rng, V, M, T, eos, exact, same=True)
                            else:
                                draws = []
                                for m in range(M):
                                    paths = [rng.choice(seqs) for _ in range(N)]
                                    draws.append([[paths[n][t] for n in range(N)] for t in range(T)])
                                tabs = lm_tables(rng, V, N, T, eos, exact)
                            yield {"kind": "sample", "V": V, "N": N, "shape": shape, "eos": eos,
                                   "max_iters": T, "tables": tabs, "default": lm_row(rng, V, exact),
                                   "draws": draws, "exact": exact}

    # ---- greedy
    def gen_greedy(self, rng, tier):
        n = {"quick": 420, "thorough": 4000, "search": 6000}[tier]
        # malformed
        yield self.mk_greedy(rng, 1, 2, 3, 3, True, False, "probs")
        yield self.mk_greedy(rng, 1, 2, 3, -4, True, False, "probs")
        for i in range(n):
            V = rng.choice([1, 2, 3, 4])
            N = rng.choice([1, 1, 2, 3])
            T = rng.choice([0, 1, 2, 3, 4, 5])
            blank = rng.randrange(-V, V)
            stream = ["probs", "logp", "tol"][i % 3]
            yield self.mk_greedy(rng, N, T, V, blank, rng.random() < 0.75, rng.random() < 0.5, stream)

    def mk_greedy(self, rng, N, T, V, blank, with_lens, batch_first, stream):
        frames = []
        for n in range(N):
            fr = []
            prev = None
            for t in range(T):
                if stream == "tol":
                    row = [rand_logit(rng) for _ in range(V)]
                else:
                    if stream == "probs":
                        pool = [Fraction(k, 16) for k in (8, 4, 2, 1, 1, 3)]
                    else:
                        pool = [Fraction(-k, 8) for k in (1, 5, 9, 14, 14, 20)]
                    vals = pool[:V] if rng.random() < 0.9 else [pool[0]] + [rng.choice(pool) for _ in range(V - 1)]
                    vals = list(vals)
                    rng.shuffle(vals)
                    if prev is not None and rng.random() < 0.4:
                        vals = prev  # repeated frame -> repeated label
                    prev = vals
                    row = [frac_str(v) for v in vals]
                fr.append(row)
            frames.append(fr)
        lens = [rng.randrange(0, T + 2) for _ in range(N)] if with_lens else None
        return {"kind": "greedy", "V": V, "blank": blank, "batch_first": batch_first,
                "stream": stream, "frames": frames, "lens": lens, "T": T}

    # ------------------------------------------------------------------ implementation
    def run_impl(self, case):
        return getattr(self, "impl_" + case["kind"])(case)

    def model_request(self, case):
        return getattr(self, "req_" + case["kind"])(case)

    # ---- seq
    def seq_tensors(self, case):
        import torch
        shape, V = case["shape"], case["V"]
        hyp = torch.tensor(case["hyp"], dtype=torch.long).view(shape)
        logits = tl.from_fracs(case["logits"]).view(shape + [V])
        return logits, hyp

    def impl_seq(self, case):
        import torch
        from pydrobert.torch.functional import sequence_log_probs
        from pydrobert.torch.modules import SequenceLogProbabilities
        logits, hyp = self.seq_tensors(case)
        ctx = tl.identity_log_softmax() if case["exact"] else _null()
        with ctx:
            out = sequence_log_probs(logits, hyp, case["dim"], case["eos"])
            out2 = SequenceLogProbabilities(case["dim"], case["eos"])(logits, hyp)
        return {"shape": list(out.shape), "out": [tl.fs(x) for x in out.flatten().tolist()],
                "module_same": bool(torch.equal(out, out2))}

    def req_seq(self, case):
        import torch
        logits, hyp = self.seq_tensors(case)
        lsm = logits if case["exact"] else torch.nn.functional.log_softmax(logits, -1)
        nd = len(case["shape"])
        cols = None
        if -nd <= case["dim"] < nd:
            d = case["dim"] % nd
            nc = prodl(case["shape"][:d] + case["shape"][d + 1:])
            h2 = hyp.movedim(d, -1).reshape(nc, case["shape"][d])
            l2 = lsm.movedim(d, -2).reshape(nc, case["shape"][d], case["V"])
            cols = [{"hyp": h2[i].tolist(), "lsm": tl.tensor_fracs(l2[i]) if case["shape"][d] else []}
                    for i in range(h2.size(0))]
        return {"op": "c07.seq", "case": {
            "shape": case["shape"], "V": case["V"], "dim": case["dim"], "eos": case["eos"],
            "lsm": [tl.fs(x) for x in lsm.flatten().tolist()], "hyp": case["hyp"], "cols": cols}}

    # ---- packed
    def packed_objs(self, case):
        import torch
        from torch.nn.utils.rnn import pack_padded_sequence
        logits = tl.from_fracs(case["logits"])
        N = len(case["lens"])
        logits = logits.view(N, max(case["lens"]), case["V"])
        lens = torch.tensor(case["lens"])
        ps = pack_padded_sequence(logits, lens, batch_first=True, enforce_sorted=case["enforce_sorted"])
        hyp = torch.tensor(case["hyp"], dtype=torch.long).view(N, -1)
        return logits, lens, ps, hyp

    def impl_packed(self, case):
        import torch
        from pydrobert.torch.functional import sequence_log_probs
        logits, lens, ps, hyp = self.packed_objs(case)
        dim = case["dim"]
        h = hyp if dim in (1, -1) else hyp.t()
        ctx = tl.identity_log_softmax() if case["exact"] else _null()
        with ctx:
            out = sequence_log_probs(ps, h, dim)
            # the same sequences as a padded tensor: positions beyond the length are made padding
            Tm = logits.size(1)
            hp = hyp[:, :Tm].clone() if hyp.size(1) >= Tm else None
            padded = None
            if hp is not None:
                hp[torch.arange(Tm).unsqueeze(0) >= lens.unsqueeze(1)] = -1
                padded = sequence_log_probs(logits, hp, 1, None)
        return {"out": [tl.fs(x) for x in out.tolist()],
                "padded": None if padded is None else [tl.fs(x) for x in padded.tolist()]}

    def req_packed(self, case):
        import torch
        logits, lens, ps, hyp = self.packed_objs(case)
        lsm = (lambda x: x) if case["exact"] else (lambda x: torch.nn.functional.log_softmax(x, -1))
        return {"op": "c07.packed", "case": {
            "V": case["V"], "N": hyp.size(0), "T": hyp.size(1),
            "rows": tl.tensor_fracs(lsm(ps.data)), "bs": ps.batch_sizes.tolist(),
            "sidx": None if ps.sorted_indices is None else ps.sorted_indices.tolist(),
            "uidx": None if ps.unsorted_indices is None else ps.unsorted_indices.tolist(),
            "hyp": hyp.tolist(), "lens": case["lens"], "padded": tl.tensor_fracs(lsm(logits))}}

    # ---- walk
    def impl_walk(self, case):
        import torch
        from pydrobert.torch.modules import RandomWalk
        from pydrobert.torch.functional import sequence_log_probs
        from pydrobert.torch.distributions import SequentialLanguageModelDistribution
        V, N, T = case["V"], case["N"], case["max_iters"]
        e = None if case["eos"] is None else case["eos"] % V
        lm = tl.make_lm(V, case["tables"], case["default"], e)
        walk = RandomWalk(lm, case["eos"])
        log = []
        ctx = (lambda: tl.identity_log_softmax()) if case["exact"] else _null
        with ctx(), tl.replay_multinomial(case["draws"], log):
            y, lens, lp = walk(dict(), N if case["batched"] else None, T)
        shape = [list(y.shape), list(lens.shape), list(lp.shape)]
        if not case["batched"]:
            y, lens, lp = y.unsqueeze(1), lens.unsqueeze(0), lp.unsqueeze(0)
        obs = {"shapes": shape, "rows": y.size(0), "lens": lens.tolist(),
               "y": [y[: int(lens[n]), n].tolist() for n in range(N)],
               "lp": [tl.fs(x) for x in lp.tolist()], "steps": len(log), "walk_eos": walk.eos}
        # the two other code paths: the wrapper's log_prob and sequence_log_probs on the LM's outputs
        if y.size(0) >= 1:
            with ctx():
                full = lm(y[:-1], dict())
                obs["seq_lp"] = [tl.fs(x) for x in sequence_log_probs(full, y, 0, walk.eos).tolist()]
                dist = SequentialLanguageModelDistribution(walk, N, None, T, validate_args=True)
                try:
                    obs["dist_lp"] = [tl.fs(x) for x in dist.log_prob(y.t().unsqueeze(0)).view(-1).tolist()]
                except Exception as ex:  # observation, judged by the predicate
                    obs["dist_lp"] = {"error": type(ex).__name__, "message": str(ex)[:160]}
        return obs

    def req_walk(self, case):
        V = case["V"]
        e = None if case["eos"] is None else case["eos"] % V
        return {"op": "c07.walk", "case": {
            "V": V, "N": case["N"], "eos": e, "max_iters": case["max_iters"],
            "lm": tables_json(case["tables"], case["exact"]),
            "lm_default": tl.lsm_rows([case["default"]], case["exact"])[0],
            "draws": case["draws"]}}

    # ---- dist
    def impl_dist(self, case):
        import torch
        from pydrobert.torch.modules import RandomWalk
        from pydrobert.torch.distributions import SequentialLanguageModelDistribution
        V, N, T, eos = case["V"], case["N"], case["max_iters"], case["eos"]
        tabs = [{k: probs_to_logits([r])[0] for k, r in tab.items()} for tab in case["tables"]]
        dflt = probs_to_logits([case["default"]])[0]
        lm = tl.make_lm(V, tabs, dflt, eos, shared=N is None)
        walk = RandomWalk(lm, eos)
        dist = SequentialLanguageModelDistribution(walk, N, None, T, validate_args=True)
        supp = dist.enumerate_support()
        obs = {"support_shape": list(supp.shape)}
        rows = supp if N is None else supp[:, 0]
        obs["support"] = rows.tolist()
        obs["expand_ok"] = True if N is None else bool((supp == supp[:, :1]).all())
        try:
            lps = dist.log_prob(supp)
            obs["support_lp"] = [[tl.fs(x) for x in r] for r in lps.view(lps.size(0), -1).t().tolist()]
            obs["logsumexp"] = [float(x) for x in lps.logsumexp(0).view(-1).tolist()]
        except Exception as ex:
            obs["support_lp"] = {"error": type(ex).__name__, "message": str(ex)[:160]}
        valid = []
        for v in case["values"]:
            val = torch.tensor(v, dtype=torch.long)
            val = val.view(1, -1) if N is None else val.view(1, 1, -1).expand(1, N, -1)
            try:
                dist.log_prob(val)
                valid.append(True)
            except ValueError:
                valid.append(False)
            except Exception as ex:
                valid.append(type(ex).__name__)
        obs["valid"] = valid
        return obs

    def req_dist(self, case):
        V, N, T, eos = case["V"], case["N"], case["max_iters"], case["eos"]
        values = [{"n": 0, "seq": v} for v in case["values"]]
        supp = C07.py_support(V, T, eos)
        for n in range(N or 1):
            values += [{"n": n, "seq": s} for s in supp]
        return {"op": "c07.dist", "case": {
            "V": V, "N": N or 1, "eos": eos, "max_iters": T,
            "lm": tables_json(case["tables"], False, from_probs=True),
            "lm_default": tl.lsm_rows(probs_to_logits([case["default"]]), False)[0],
            "plm": [[{"h": [int(x) for x in k.split(",")] if k else [], "row": r}
                     for k, r in tab.items()] for tab in case["tables"]],
            "plm_default": case["default"], "pinned": False, "values": values}}

    @staticmethod
    def py_support(V, T, eos):
        """independent enumeration (python): eos-filled rows, sorted, distinct"""
        out = set()
        for s in itertools.product(range(V), repeat=T):
            s = list(s)
            if eos is not None and eos in s:
                i = s.index(eos)
                s = s[: i + 1] + [eos] * (T - i - 1)
            out.add(tuple(s))
        return [list(s) for s in sorted(out)]

    # ---- sample
    def impl_sample(self, case):
        import torch
        from pydrobert.torch.modules import RandomWalk
        from pydrobert.torch.distributions import SequentialLanguageModelDistribution
        V, N, T, eos = case["V"], case["N"], case["max_iters"], case["eos"]
        lm = tl.make_lm(V, case["tables"], case["default"], eos, shared=N is None)
        walk = RandomWalk(lm, eos)
        flat_draws = case["draws"] if N is None else [row for d in case["draws"] for row in d]
        obs = {}
        ctx = tl.identity_log_softmax() if case["exact"] else _null()
        with ctx:
            for cache in (True, False):
                dist = SequentialLanguageModelDistribution(walk, N, None, T, cache_samples=cache,
                                                           validate_args=True)
                log = []
                # a batched walk stops early when all its paths ended: hand each walk its own draws
                with _walk_replay(case, log):
                    s = dist.sample(torch.Size(case["shape"]))
                key = "cached" if cache else "fresh"
                obs["shape"] = list(s.shape)
                obs["rows"] = s.reshape(-1, s.size(-1)).tolist()
                try:
                    lp = dist.log_prob(s)
                    obs[key + "_lp_shape"] = list(lp.shape)
                    obs[key + "_lp"] = [tl.fs(x) for x in lp.reshape(-1).tolist()]
                except Exception as ex:
                    obs[key + "_lp"] = {"error": type(ex).__name__, "message": str(ex)[:160]}
        return obs

    def req_sample(self, case):
        V, N = case["V"], case["N"]
        return {"op": "c07.sample", "case": {
            "V": V, "N": N, "M": prodl(case["shape"]), "eos": case["eos"],
            "max_iters": case["max_iters"], "lm": tables_json(case["tables"], case["exact"]),
            "lm_default": tl.lsm_rows([case["default"]], case["exact"])[0], "draws": case["draws"]}}

    # ---- greedy
    def impl_greedy(self, case):
        import torch
        from pydrobert.torch.functional import ctc_greedy_search
        from pydrobert.torch.modules import CTCGreedySearch
        V, T = case["V"], case["T"]
        N = len(case["frames"])
        x = tl.from_fracs(case["frames"]).view(N, T, V)
        if not case["batch_first"]:
            x = x.transpose(0, 1).contiguous()
        lens = None if case["lens"] is None else torch.tensor(case["lens"])
        is_probs = case["stream"] == "probs"
        ctx = tl.identity_log_softmax() if case["stream"] == "logp" else _null()
        with ctx:
            mx, paths, out_lens = ctc_greedy_search(x, lens, case["blank"], case["batch_first"], is_probs)
            mx2, paths2, out_lens2 = CTCGreedySearch(case["blank"], case["batch_first"], is_probs)(x, lens)
        pshape = list(paths.shape)
        if not case["batch_first"]:
            paths, paths2 = paths.t(), paths2.t()
        ol = out_lens.tolist()
        return {"score": [tl.fs(v) for v in mx.tolist()], "out_lens": ol, "paths_shape": pshape,
                "paths": [paths[n, : ol[n]].tolist() for n in range(N)],
                "module_same": bool(torch.equal(mx, mx2) and torch.equal(out_lens, out_lens2)
                                    and all(torch.equal(paths[n, : ol[n]], paths2[n, : ol[n]]) for n in range(N)))}

    def req_greedy(self, case):
        import torch
        V, T = case["V"], case["T"]
        N = len(case["frames"])
        x = tl.from_fracs(case["frames"]).view(N, T, V)
        if case["stream"] == "tol":
            x = x.log_softmax(2)
        return {"op": "c07.greedy", "case": {
            "V": V, "frames": tl.tensor_fracs(x) if T else [[] for _ in range(N)],
            "lens": case["lens"], "blank": case["blank"], "is_probs": case["stream"] == "probs"}}

    # ------------------------------------------------------------------ comparison
    def compare(self, case, impl, model):
        return getattr(self, "cmp_" + case["kind"])(case, impl, model)

    def predicate(self, case, impl, model):
        return getattr(self, "pred_" + case["kind"])(case, impl, model)

    @staticmethod
    def err(impl):
        return isinstance(impl, dict) and "error" in impl

    # ---- seq
    def cmp_seq(self, case, impl, model):
        m = model["model"]
        if m is not None and model["spec"] and m != model["spec"]:
            raise RuntimeError(f"internal: model {m} != spec {model['spec']} (C07_seq)")
        if m is None:
            return [] if self.err(impl) else ["model: dimension error, implementation returned a value"]
        if self.err(impl):
            return [f"implementation raised {impl['error']}: {impl.get('message')}"]
        if not all_close(impl["out"], m, case["exact"]):
            return [f"impl={impl['out']} model={m}"]
        return []

    def pred_seq(self, case, impl, model):
        nd = len(case["shape"])
        if not (-nd <= case["dim"] < nd):
            if not self.err(impl):
                return [("dim out of range accepted", None)]
            return [] if impl["error"] in ("RuntimeError", "IndexError") else [
                (f"dim out of range raised {impl['error']}", None)]
        if self.err(impl):
            return [(f"sequence_log_probs raised {impl['error']}: {impl.get('message')}", None)]
        d = case["dim"] % nd
        fails = []
        exp_shape = case["shape"][:d] + case["shape"][d + 1:]
        if impl["shape"] != exp_shape:
            fails.append((f"result shape {impl['shape']} != {exp_shape}", None))
        if not all_close(impl["out"], model["spec"], case["exact"]):
            fails.append((f"score {impl['out']} differs from sum over tokens up to the first eos "
                          f"{model['spec']}", None))
        if not impl["module_same"]:
            fails.append(("SequenceLogProbabilities differs from the functional", None))
        return fails

    # ---- packed
    def cmp_packed(self, case, impl, model):
        m = model["model"]
        if case["dim"] < 0:
            return []  # the model covers dim in {0, 1}; negative dims are judged by the predicate
        if m is None:
            return [] if self.err(impl) else ["model: pack error, implementation returned a value"]
        if self.err(impl):
            return [f"implementation raised {impl['error']}: {impl.get('message')}"]
        return [] if all_close(impl["out"], m, case["exact"]) else [f"impl={impl['out']} model={m}"]

    def pred_packed(self, case, impl, model):
        T = len(case["hyp"][0])
        if T < max(case["lens"]):
            return [] if self.err(impl) else [("hyp shorter than the packed sequences accepted", None)]
        if self.err(impl):
            sig = None
            if case["dim"] < 0 and impl["error"] == "IndexError":
                sig = "C07.packed.negative_dim"
            return [(f"packed sequence_log_probs raised {impl['error']} (dim={case['dim']}): "
                     f"{impl.get('message')}", sig)]
        fails = []
        if not (model["flags"]["hbs"] and model["flags"]["layout"]):
            raise RuntimeError(f"internal: hypotheses of C07_packed do not hold on a PackedSequence built by torch: "
                               f"{model['flags']}")
        if not all_close(impl["out"], model["spec"], case["exact"]):
            fails.append((f"packed score {impl['out']} differs from per-sequence sums {model['spec']}", None))
        if impl["padded"] is not None and not all_close(impl["out"], impl["padded"], case["exact"]):
            fails.append((f"packed {impl['out']} != padded {impl['padded']}", None))
        return fails

    # ---- walk
    def cmp_walk(self, case, impl, model):
        if model["model"]["lp"] != model["spec"]["chained"] or model["model"]["rescored"] != model["spec"]["chained"]:
            raise RuntimeError(f"internal: walk model {model['model']} != spec {model['spec']} (C07_walk)")
        if self.err(impl):
            return [f"implementation raised {impl['error']}: {impl.get('message')}"]
        m = model["model"]
        out = []
        N = case["N"]
        if impl["rows"] != m["rows"]:
            out.append(f"rows of y impl={impl['rows']} model={m['rows']}")
        if impl["lens"] != m["lens"]:
            out.append(f"lens impl={impl['lens']} model={m['lens']}")
        my = [m["y"][n][: m["lens"][n]] for n in range(N)]
        if impl["y"] != my:
            out.append(f"y impl={impl['y']} model={my}")
        if not all_close(impl["lp"], m["lp"], case["exact"]):
            out.append(f"log_probs impl={impl['lp']} model={m['lp']}")
        if isinstance(impl.get("seq_lp"), list) and not all_close(impl["seq_lp"], m["rescored"], case["exact"]):
            out.append(f"sequence_log_probs of the LM outputs impl={impl['seq_lp']} model={m['rescored']}")
        return out

    def pred_walk(self, case, impl, model):
        if self.err(impl):
            return [(f"random walk raised {impl['error']}: {impl.get('message')}", None)]
        s = model["spec"]
        N, T, V = case["N"], case["max_iters"], case["V"]
        e = None if case["eos"] is None else case["eos"] % V
        fails = []
        exp_shapes = [[s["steps"], N], [N], [N]] if case["batched"] else [[s["steps"]], [], []]
        if impl["shapes"] != exp_shapes:
            fails.append((f"shapes {impl['shapes']} != {exp_shapes}", None))
        if impl["steps"] != s["steps"]:
            fails.append((f"{impl['steps']} draws taken, expected {s['steps']}", None))
        for n in range(N):
            path = s["paths"][n]
            if impl["y"][n] != path:
                fails.append((f"path {n}: {impl['y'][n]} (len {impl['lens'][n]}) is not the drawn tokens up "
                              f"to the first eos / step limit {path}", None))
                continue
            ends_ok = (e is not None and path and path[-1] == e and e not in path[:-1]) or \
                      (len(path) == T and (e is None or e not in path))
            if not ends_ok:
                fails.append((f"path {n} does not end at its first eos or the step limit", None))
        if not all_close(impl["lp"], s["chained"], case["exact"]):
            fails.append((f"reported log-probabilities {impl['lp']} != chained {s['chained']}", None))
        if "seq_lp" in impl and not all_close(impl["seq_lp"], s["chained"], case["exact"]):
            fails.append((f"sequence_log_probs on the LM's outputs {impl['seq_lp']} != chained "
                          f"{s['chained']}", None))
        if "dist_lp" in impl:
            if isinstance(impl["dist_lp"], dict):
                sig = None
                if impl["dist_lp"]["error"] == "ValueError" and 1 < impl["rows"] < T \
                        and "cannot broadcast" in impl["dist_lp"].get("message", ""):
                    sig = "C07.validate_sample.intermediate_length"
                fails.append((f"log_prob of the walk's own output raised {impl['dist_lp']}", sig))
            elif not all_close(impl["dist_lp"], s["chained"], case["exact"]):
                fails.append((f"wrapper log_prob {impl['dist_lp']} != chained {s['chained']}", None))
        return fails

    # ---- dist
    def cmp_dist(self, case, impl, model):
        if self.err(impl):
            return [f"implementation raised {impl['error']}: {impl.get('message')}"]
        m = model["model"]
        out = []
        if impl["support"] != m["support"]:
            out.append(f"support impl={impl['support']} model={m['support']}")
        nv = len(case["values"])
        if impl["valid"] != m["valid"][:nv]:
            out.append(f"validation impl={impl['valid']} model={m['valid'][:nv]}")
        if isinstance(impl["support_lp"], list) and impl["support"] == m["support"]:
            order = C07.py_support(case["V"], case["max_iters"], case["eos"])
            S = len(order)
            for n, row in enumerate(impl["support_lp"]):
                by_row = {tuple(r): m["log_probs"][nv + n * S + i] for i, r in enumerate(order)}
                mrow = [by_row[tuple(r)] for r in impl["support"]]
                if not all_close(row, mrow, False):
                    out.append(f"log_prob(support) element {n} impl={row} model={mrow}")
        return out

    def pred_dist(self, case, impl, model):
        if self.err(impl):
            return [(f"distribution raised {impl['error']}: {impl.get('message')}", None)]
        V, N, T, eos = case["V"], case["N"], case["max_iters"], case["eos"]
        s = model["spec"]
        fails = []
        if sorted(impl["support"]) != s["support"]:
            fails.append((f"enumerate_support {impl['support']} is not the set of eos-truncated sequences "
                          f"{s['support']}", None))
        if len(set(map(tuple, impl["support"]))) != len(impl["support"]):
            fails.append(("enumerate_support lists a sequence twice", None))
        exp_shape = [len(s["support"])] + ([] if N is None else [N]) + [T]
        if impl["support_shape"] != exp_shape or not impl["expand_ok"]:
            fails.append((f"support shape {impl['support_shape']} != {exp_shape}", None))
        if isinstance(impl["support_lp"], dict):
            fails.append((f"log_prob(enumerate_support()) raised {impl['support_lp']}", None))
        else:
            for x in impl["logsumexp"]:
                if abs(x) > 1e-4:
                    fails.append((f"probabilities over the support sum to exp({x})", None))
        if s["mass"] is not None and any(Fraction(x) != 1 for x in s["mass"]):
            raise RuntimeError(f"internal: spec support mass {s['mass']} != 1")
        supp = set(map(tuple, s["support"]))
        for v, ok in zip(case["values"], impl["valid"]):
            w = list(v)
            if eos is not None and eos in w:
                w = w[: w.index(eos) + 1]
                w = w + [eos] * (T - len(w))
            member = 1 <= len(v) <= T and len(w) == T and tuple(w) in supp
            if ok is not True and ok is not False:
                fails.append((f"log_prob({v}) raised {ok}", None))
            elif member and not ok:
                sig = "C07.validate_sample.intermediate_length" if 1 < len(v) < T else None
                fails.append((f"log_prob rejects {v} (max_iters={T}, eos={eos}) although it is in the support", sig))
            elif ok and not member:
                fails.append((f"log_prob accepts {v} (max_iters={T}, eos={eos}) which is outside the support", None))
        return fails

    # ---- sample
    def cmp_sample(self, case, impl, model):
        if self.err(impl):
            return [f"implementation raised {impl['error']}: {impl.get('message')}"]
        m = model["model"]
        out = []
        if impl["rows"] != m["rows"]:
            out.append(f"sample rows impl={impl['rows']} model={m['rows']}")
        for key in ("cached_lp", "fresh_lp"):
            if isinstance(impl[key], list) and impl["rows"] == m["rows"] and \
                    not all_close(impl[key], m["log_probs"], case["exact"]):
                out.append(f"{key} impl={impl[key]} model={m['log_probs']}")
        return out

    def pred_sample(self, case, impl, model):
        if self.err(impl):
            return [(f"sample raised {impl['error']}: {impl.get('message')}", None)]
        V, N, T, eos = case["V"], case["N"], case["max_iters"], case["eos"]
        fails = []
        exp = case["shape"] + ([] if N is None else [N])
        if impl["shape"][:-1] != exp or not (1 <= impl["shape"][-1] <= T):
            fails.append((f"sample shape {impl['shape']} for sample_shape {case['shape']}, batch {N}", None))
        supp = set(map(tuple, C07.py_support(V, T, eos)))
        exp_lp = []
        k = 0
        for r in impl["rows"]:
            w = list(r)
            if eos is not None and eos in w:
                w = w[: w.index(eos) + 1]
            elif len(w) != T:
                fails.append((f"sampled row {r} has neither eos nor {T} tokens", None))
            w = w + [eos] * (T - len(w)) if eos is not None else w
            if tuple(w) not in supp:
                fails.append((f"sampled row {r} is not in the support", None))
        if not all(model["spec"]["in_support"]):
            raise RuntimeError("internal: model sample outside the spec support")
        for key in ("cached_lp", "fresh_lp"):
            v = impl[key]
            if isinstance(v, dict):
                sig = None
                if v["error"] == "ValueError" and 1 < impl["shape"][-1] < T and "cannot broadcast" in v.get("message", ""):
                    sig = "C07.validate_sample.intermediate_length"
                elif not case["shape"] and v["error"] in ("RuntimeError", "IndexError"):
                    sig = "C07.log_prob.sample_shape"
                elif len(case["shape"]) > 1 and N is None and v["error"] == "RuntimeError":
                    sig = "C07.log_prob.sample_shape"
                fails.append((f"log_prob(sample()) raised {v} (sample_shape={case['shape']}, batch={N}, "
                              f"max_iters={T}, rows={impl['rows']})", sig))
            else:
                if impl[key + "_shape"] != exp:
                    fails.append((f"{key} shape {impl[key + '_shape']} != {exp}", None))
                if not all_close(v, model["model"]["log_probs"], case["exact"]) and impl["rows"] == model["model"]["rows"]:
                    fails.append((f"{key} {v} != score of the sampled rows {model['model']['log_probs']}", None))
        return fails

    # ---- greedy
    def cmp_greedy(self, case, impl, model):
        m = model["model"]
        if m == "error":
            return [] if self.err(impl) else ["model: blank index error, implementation returned a value"]
        if self.err(impl):
            return [f"implementation raised {impl['error']}: {impl.get('message')}"]
        exact = case["stream"] != "tol"
        out = []
        if m["score"] != model["spec"]["score"] or m["paths"] != model["spec"]["labels"]:
            raise RuntimeError(f"internal: greedy model {m} != spec {model['spec']} (C07_greedy)")
        if not all_close(impl["score"], m["score"], exact):
            out.append(f"score impl={impl['score']} model={m['score']}")
        ties = model["flags"]["tie"]
        for n in range(len(case["frames"])):
            if ties[n]:
                continue
            if impl["out_lens"][n] != m["out_lens"][n] or impl["paths"][n] != m["paths"][n]:
                out.append(f"element {n}: path impl={impl['paths'][n]} model={m['paths'][n]}")
        return out

    def pred_greedy(self, case, impl, model):
        V = case["V"]
        if not (-V <= case["blank"] <= V - 1):
            return [] if self.err(impl) and impl["error"] == "RuntimeError" else [
                ("blank index out of range accepted", None)]
        if self.err(impl):
            return [(f"ctc_greedy_search raised {impl['error']}: {impl.get('message')}", None)]
        s = model["spec"]
        exact = case["stream"] != "tol"
        fails = []
        N, T = len(case["frames"]), case["T"]
        exp_shape = [N, T] if case["batch_first"] else [T, N]
        if impl["paths_shape"] != exp_shape:
            fails.append((f"paths shape {impl['paths_shape']} != {exp_shape}", None))
        if not all_close(impl["score"], s["score"], exact):
            fails.append((f"score {impl['score']} != sum/product of frame maxima {s['score']}", None))
        for n in range(N):
            if model["flags"]["tie"][n]:
                continue
            if impl["paths"][n] != s["labels"][n]:
                fails.append((f"element {n}: {impl['paths'][n]} != frame-wise best labels with repeats and "
                              f"blanks removed {s['labels'][n]}", None))
        if not impl["module_same"]:
            fails.append(("CTCGreedySearch differs from the functional", None))
        return fails

    # ------------------------------------------------------------------ evidence
    def nontrivial(self, case, impl):
        k = case["kind"]
        if self.err(impl):
            return False
        if k == "seq":
            nd = len(case["shape"])
            if not (-nd <= case["dim"] < nd) or case["eos"] is None:
                return False
            d = case["dim"] % nd
            import torch
            nc = prodl(case["shape"][:d] + case["shape"][d + 1:])
            h = torch.tensor(case["hyp"]).view(case["shape"]).movedim(d, -1).reshape(nc, case["shape"][d])
            return any(case["eos"] in r[:-1] for r in h.tolist())
        if k == "packed":
            return len(set(case["lens"])) > 1
        if k == "walk":
            return any(l < case["max_iters"] for l in impl["lens"]) and case["max_iters"] >= 2
        if k == "dist":
            return case["eos"] is not None and case["max_iters"] >= 2
        if k == "sample":
            return impl["shape"][-1] >= 2 or len(case["shape"]) != 1
        if k == "greedy":
            fr = sum(min(case["T"], l) if case["lens"] is not None else case["T"]
                     for l in (case["lens"] or [0] * len(case["frames"])))
            return sum(impl["out_lens"]) < fr
        return True

    def tags(self, case, impl):
        k = case["kind"]
        t = ["kind=" + k]
        if k == "seq":
            t += [f"seq.rank={len(case['shape'])}", f"seq.dim={case['dim']}",
                  "seq.eos=" + ("unset" if case["eos"] is None else
                                "oov" if not (0 <= case["eos"] < case["V"]) else "in"),
                  "stream=" + ("exact" if case["exact"] else "tol")]
        elif k == "packed":
            t += [f"packed.N={len(case['lens'])}", f"packed.dim={case['dim']}",
                  f"packed.enforce_sorted={case['enforce_sorted']}",
                  "stream=" + ("exact" if case["exact"] else "tol")]
        elif k == "walk":
            t += [f"walk.V={case['V']}", f"walk.T={case['max_iters']}", f"walk.N={case['N']}",
                  f"walk.batched={case['batched']}", "walk.eos=" + ("unset" if case["eos"] is None else "set"),
                  "stream=" + ("exact" if case["exact"] else "tol")]
            if not self.err(impl) and impl["rows"] < case["max_iters"]:
                t.append("walk.early_break")
        elif k == "dist":
            t += [f"dist.T={case['max_iters']}", f"dist.batch={case['N']}", "stream=tol"]
        elif k == "sample":
            t += [f"sample.shape={case['shape']}", f"sample.batch={case['N']}",
                  "stream=" + ("exact" if case["exact"] else "tol")]
        elif k == "greedy":
            t += [f"greedy.blank={case['blank']}", f"greedy.batch_first={case['batch_first']}",
                  f"greedy.lens={'set' if case['lens'] is not None else 'unset'}",
                  "stream=" + {"probs": "exact(is_probs)", "logp": "exact", "tol": "tol"}[case["stream"]]]
        return t

    # ------------------------------------------------------------------ shrinking
    def shrink(self, case):
        k = case["kind"]
        if k == "seq":
            yield from self.shrink_seq(case)
        elif k == "walk":
            N, T = case["N"], case["max_iters"]
            if N > 1:
                for drop in range(N):
                    c = dict(case)
                    c["N"] = N - 1
                    c["tables"] = [t for i, t in enumerate(case["tables"]) if i != drop]
                    c["draws"] = [[x for i, x in enumerate(r) if i != drop] for r in case["draws"]]
                    yield c
            if T > 0:
                c = dict(case)
                c["max_iters"] = T - 1
                c["draws"] = case["draws"][: T - 1]
                yield c
        elif k == "sample":
            if len(case["shape"]) > 1 and case["N"] is not None:
                c = dict(case)
                c["shape"] = [prodl(case["shape"])]
                yield c
            if case["N"] is not None and len(case["shape"]) == 1 and case["shape"][0] > 1:
                c = dict(case)
                c["shape"] = [case["shape"][0] - 1]
                c["draws"] = case["draws"][:-1]
                yield c
        elif k == "dist":
            if len(case["values"]) > 1:
                h = len(case["values"]) // 2
                for part in (case["values"][:h], case["values"][h:]):
                    c = dict(case)
                    c["values"] = part
                    yield c
        elif k == "greedy":
            N = len(case["frames"])
            if N > 1:
                for drop in range(N):
                    c = dict(case)
                    c["frames"] = [f for i, f in enumerate(case["frames"]) if i != drop]
                    c["lens"] = None if case["lens"] is None else [l for i, l in enumerate(case["lens"]) if i != drop]
                    yield c
            if case["T"] > 0:
                c = dict(case)
                c["T"] = case["T"] - 1
                c["frames"] = [f[:-1] for f in case["frames"]]
                yield c
            if case["lens"] is not None:
                c = dict(case)
                c["lens"] = None
                yield c
        elif k == "packed":
            N = len(case["lens"])
            if N > 1:
                for drop in range(N):
                    lens = [l for i, l in enumerate(case["lens"]) if i != drop]
                    if max(lens) != max(case["lens"]):
                        continue
                    if case["enforce_sorted"] and any(a < b for a, b in zip(lens, lens[1:])):
                        continue
                    c = dict(case)
                    c["lens"] = lens
                    c["hyp"] = [h for i, h in enumerate(case["hyp"]) if i != drop]
                    c["logits"] = [h for i, h in enumerate(case["logits"]) if i != drop]
                    yield c

    def shrink_seq(self, case):
        import torch
        shape, V = case["shape"], case["V"]
        nd = len(shape)
        if not (-nd <= case["dim"] < nd):
            return
        hyp = torch.tensor(case["hyp"], dtype=torch.long).view(shape)
        idx = torch.arange(prodl(shape) * V).view(shape + [V])
        for ax in range(nd):
            if shape[ax] > 1:
                for sl in (slice(0, shape[ax] - 1), slice(1, shape[ax])):
                    h = hyp.narrow(ax, sl.start, sl.stop - sl.start)
                    ii = idx.narrow(ax, sl.start, sl.stop - sl.start)
                    c = dict(case)
                    c["shape"] = list(h.shape)
                    c["hyp"] = h.reshape(-1).tolist()
                    c["logits"] = [case["logits"][i] for i in ii.reshape(-1).tolist()]
                    yield c
        if nd > 1:
            d = case["dim"] % nd
            for ax in range(nd):
                if ax != d and shape[ax] == 1:
                    c = dict(case)
                    c["shape"] = shape[:ax] + shape[ax + 1:]
                    c["dim"] = d - (1 if ax < d else 0)
                    yield c
                    break


class _null:
    def __enter__(self):
        return None

    def __exit__(self, *a):
        return False


class _walk_replay:
    """replay for sample(): with a batch shape the draws are grouped per walk; a walk that stops
    early leaves the rest of its group unused, so the queue is re-aligned at each walk start."""

    def __init__(self, case, log):
        self.case, self.log = case, log

    def __enter__(self):
        import torch
        case = self.case
        self.saved = torch.multinomial
        if case["N"] is None:
            groups = [case["draws"]]
        else:
            groups = case["draws"]
        state = {"g": -1, "t": 0, "last_rows": None}
        T = case["max_iters"]
        outer = self

        def fake(probs, num_samples, replacement=False, **kw):
            # a new walk starts whenever RandomWalk.forward was entered since the last draw
            p = probs
            fresh = state["fresh_hint"]() or state["g"] < 0
            if fresh:
                state["g"] += 1
                state["t"] = 0
            if state["g"] >= len(groups) or state["t"] >= len(groups[state["g"]]):
                raise tl.ReplayError("multinomial called more often than draws were supplied")
            row = groups[state["g"]][state["t"]]
            state["t"] += 1
            y = torch.tensor(row, dtype=torch.long).unsqueeze(1)
            if len(row) != p.size(0) or (y >= p.size(1)).any():
                raise tl.ReplayError(f"unexpected multinomial call {tuple(p.shape)} for draw {row}")
            if not bool((p.gather(1, y) > 0).all()):
                raise tl.ReplayError(f"draw {row} has probability zero under {p.tolist()}")
            outer.log.append(row)
            return y

        # the walk signals its start by calling lm.update_input with an empty history; hook that
        import pydrobert.torch._decoding as dec
        self.dec = dec
        self.saved_fwd = dec.RandomWalk.forward
        flag = {"new": False}

        def fwd(this, *a, **k):
            flag["new"] = True
            return outer.saved_fwd(this, *a, **k)

        def hint():
            if flag["new"]:
                flag["new"] = False
                return True
            return False

        state["fresh_hint"] = hint
        dec.RandomWalk.forward = fwd
        torch.multinomial = fake
        return self

    def __exit__(self, *a):
        import torch
        torch.multinomial = self.saved
        self.dec.RandomWalk.forward = self.saved_fwd
        return False


CHECK = C07()
