"""C07 — sequence scores, random walks and greedy CTC decoding match their definitions.

Correspondence: the real `sequence_log_probs` (tensor and PackedSequence input, any `dim`),
`RandomWalk` (with `torch.multinomial` replaying chosen tokens so that every path of a tiny
language model is walked), `SequentialLanguageModelDistribution` (`sample`, `log_prob`,
`enumerate_support`, `_validate_sample`) and `ctc_greedy_search` are run in-process and compared
with the Lean model; the property itself is evaluated on the implementation's output with the Lean
spec as oracle.

Streams: *exact* — `log_softmax` (trusted primitive) replaced by the identity, values on a dyadic
grid, equality of rationals; *tol* — real `log_softmax`, torch's own values handed to the model as
exact rationals, results compared with a tolerance.
"""
import itertools
import math
from fractions import Fraction

from common.framework import PropertyCheck, frac_str

import c07_tools as tl

ABS_TOL = 2e-4
REL_TOL = 1e-5
# the tolerance belongs to float32 inputs (about 1700 / 84 machine epsilons); for any other input
# dtype it is scaled by eps(dtype) / eps(float32), so float64 scores are held to float64 accuracy
# (2**-29 of the float32 figures: abs 3.7e-13, rel 1.9e-14) -- never looser than before
EPS_SCALE = {None: 1.0, "f32": 1.0, "f64": 2.0 ** -29}


def close(a, b, exact, dt=None):
    """a, b: 'n/d' strings (or '-inf'); dt: the dtype of the scores that went in"""
    if a == b:
        return True
    if a in ("-inf", "inf", "nan") or b in ("-inf", "inf", "nan"):
        return False
    fa, fb = Fraction(a), Fraction(b)
    if exact:
        return fa == fb
    k = EPS_SCALE[dt]
    return abs(fa - fb) <= k * (ABS_TOL + REL_TOL * max(abs(fa), abs(fb)))


def all_close(xs, ys, exact, dt=None):
    return len(xs) == len(ys) and all(close(x, y, exact, dt) for x, y in zip(xs, ys))


def dyadic_logp(rng, lo=-24 * 8, hi=0):
    """a 'log-probability' on the 1/8 grid in [-24, 0]"""
    return frac_str(Fraction(rng.randint(lo, hi), 8))


MAG_W = [1, 1, 32, 1024]   # magnitude classes of the tolerance streams' raw scores: |x| <= 4, 128, 4096


def rand_logit(rng, mag=1):
    return frac_str(Fraction(rng.randint(-4 * 64, 4 * 64), 64) * mag)


def prodl(l):
    out = 1
    for x in l:
        out *= x
    return out


def shape_of(nested):
    s = []
    x = nested
    while isinstance(x, list):
        s.append(len(x))
        if not x:
            break
        x = x[0]
    return s


def lm_tables(rng, V, N, T, eos, exact, same=False, probs=False):
    """per batch element: dict hist_key -> row for every eos-free history shorter than T"""
    tabs = []
    for n in range(N):
        if same and n:
            tabs.append(dict(tabs[0]))
            continue
        tab = {}
        for L in range(0, max(T, 1)):
            for h in itertools.product(range(V), repeat=L):
                if eos is not None and eos in h:
                    continue
                tab[tl.hist_key(h)] = lm_row(rng, V, exact, probs)
        tabs.append(tab)
    return tabs


def lm_row(rng, V, exact, probs=False):
    if probs:
        # dyadic conditional probabilities (sixteenths, all positive), as logits log(p)
        cuts = sorted(rng.sample(range(1, 16), V - 1)) if V > 1 else []
        parts = [b - a for a, b in zip([0] + cuts, cuts + [16])]
        return [frac_str(Fraction(p, 16)) for p in parts]
    if exact:
        return [dyadic_logp(rng, -6 * 8, 0) for _ in range(V)]
    return [rand_logit(rng) for _ in range(V)]


LAY_W = ["contig", "contig", "perm", "strided", "offset"]
DT_W = ["f32", "f32", "f64"]
NO_LIMIT = 1073741824  # RandomWalk's "practically infinite" step limit when max_iters is None
MUT_W = [None, None, "keys", "dict", "dict", "tensor", "all"]  # how the LM treats the dict it is handed


def ret_kind(case):
    """how the caller edits, in place, every tensor a call handed back to it (tl.scribble); cases
    written before the field existed: every row becomes the first one"""
    return case.get("ret_edit") or "row0"


def support_calls(case):
    """the enumerate_support(expand=...) calls made one after the other on one distribution, each
    result edited in place by the caller before the next call"""
    return case.get("supp_calls") or [False, True, False]


def junk_kinds(rng, n, p_case=0.5, p_cell=0.6):
    """per position None or a kind of non-finite garbage; a kind of tl.JUNK_KINDS is only written
    where the property says the scores are ignored (decided when the tensors are built, from the
    tokens/lengths), "ninf_other" (-inf for one class that does not count: a masked vocabulary
    entry) only where they are not"""
    if rng.random() >= p_case:
        return None
    kinds = list(tl.JUNK_KINDS) + ["ninf_other"] * 3
    return [rng.choice(kinds) if rng.random() < p_cell else None for _ in range(n)]


def lm_options(rng, eos):
    """-> (lm_mut, default_junk): dictionary-mutating behaviour of the harness LM and the garbage
    it returns for paths that already ended"""
    return rng.choice(MUT_W), (rng.choice([None, None] + list(tl.JUNK_KINDS)) if eos is not None else None)


def attempt(fn):
    try:
        return fn()
    except Exception as ex:  # an observation; judged by the predicate
        return {"error": type(ex).__name__, "message": str(ex)[:240]}


def norm_eos(case):
    """the eos token RandomWalk works with: a negative index counts from the end"""
    return None if case["eos"] is None else case["eos"] % case["V"]


def init_state(case):
    """the initial state handed to walk / wrapper / language model (None = not given)"""
    import torch
    sel = case.get("sel")
    return None if sel is None else {"sel": torch.tensor(sel, dtype=torch.long)}


def tables_for(case, n_elems):
    """the table each of the `n_elems` batch elements answers from"""
    tabs, sel = case["tables"], case.get("sel")
    if sel is not None:
        return [tabs[sel[i % len(sel)]] for i in range(n_elems)]
    if case.get("shared"):
        return [tabs[0]] * n_elems
    return tabs


def tables_json(tabs, exact, from_probs=False, dtype=None):
    """-> driver format with the implementation's own log_softmax applied to every row"""
    out = []
    for tab in tabs:
        keys = list(tab.keys())
        rows = [tab[k] for k in keys]
        if from_probs:
            rows = probs_to_logits(rows)
        lrows = tl.lsm_rows(rows, exact, dtype)
        out.append([{"h": [int(x) for x in k.split(",")] if k else [], "row": r}
                    for k, r in zip(keys, lrows)])
    return out


def probs_to_logits(rows):
    import torch
    t = tl.from_fracs(rows).log()
    return tl.tensor_fracs(t)


class C07(PropertyCheck):
    pid = "C07"
    rule = ("nine case kinds: seq (all hyp ranks 1-4, every dim incl. negative, eos set/unset/absent/"
            "out of vocabulary/negative, OOV tokens, sizes 0-3 incl. a zero-size sequence dimension with "
            "eos set), packed (every length pattern for N<=4 "
            "(quick: N<=3), sorted and unsorted, dim 0/1/-1/-2, eos argument given or not; malformed: hyp "
            "with a sequence too many / too few, sorted/unsorted indices outside the batch), advance "
            "(random_walk_advance called directly: no prefix lengths / all full / none full / mixed, "
            "S 0-3; malformed incl. a prefix length beyond y_prev), lpraise (log_prob call sequences on one "
            "caching distribution whose language model raises on out-of-vocabulary history tokens: a value "
            "with garbage after its first eos, or any OOV token with validate_args=False), walk (every canonical draw sequence of tiny LMs with V<=3, max_iters<=3(4) or "
            "unset, N<=3, every eos index -V..V-1 or unset, batch_size set/unset, initial state "
            "selecting the tables), dist (support, expand=False, log_prob of every support row as "
            "long/float tensors, validation and support.check of rows of every length, validate_args "
            "True/None/False), sample (sample shapes (), (M,), (M1,M2), (M1,M2,M3), empty, batch shape set/unset, "
            "max_iters unset; a generated call script run on a caching and on a never-caching object: "
            "values of every sample-shape class built from the drawn paths (the sample, an equal copy, "
            "rotated, a part, a single path, the same rows in another shape, repeated draws, empty; "
            "long/int32/float32/float64, four memory layouts, batch elements swapped) scored twice, with "
            "another value in between, after clear_cache, after a new sample(); tensors the caller edits "
            "in place between the calls (a scored value, the tensor sample() returned, returned scores); "
            "shape and values of every answer compared), greedy (all "
            "blank indices, lens, layouts, is_probs both ways), ctor (argument errors); tensor inputs "
            "in float32/float64 and four memory layouts; non-finite garbage (-inf rows, single -inf/+inf/NaN, "
            "NaN rows, mixtures) in every region whose scores are ignored (out-of-vocabulary positions, "
            "positions after the first eos, packed padding frames, frames beyond in_lens, language-model "
            "rows of paths that already ended) and -inf (0 with is_probs) for classes that do not count; "
            "language models that build new state dictionaries / add their keys to the dictionary they are "
            "handed / store the updated state in it / update their state tensors in place, on every stream "
            "that calls the model more than once per object (walk twice, log_prob twice, sample after "
            "log_prob, the sample/log_prob/clear_cache scripts, support + values; walk and dist with "
            "cache_samples on and off), the caller's "
            "initial_state compared before/after; every tensor a call RETURNS (sequence_log_probs / module "
            "scores, greedy score/paths/out_lens, random_walk_advance y/log_probs, the walk's y/lens/log_probs, "
            "sample(), log_prob scores, enumerate_support(expand=True/False) asked 2-3 times in every order) is "
            "edited in place by the caller (all rows = the first / a constant / +1 / out of vocabulary / -1; "
            "NaN, -inf for scores) and the call repeated on the same object: same answer as the first call, the "
            "tensors handed out earlier keep what the caller wrote; every tensor HANDED IN (values of log_prob / "
            "support.check, all functional inputs, the score rows the language model returns) compared with a "
            "clone afterwards; seq/packed/greedy/advance/walk called with every argument passed and with the "
            "arguments that have their documented default left out (functional and module); result dtype = "
            "dtype of the scores; tolerance scaled to the input dtype's eps; score magnitudes <= 4/128/4096 "
            "(seq, packed, greedy tolerance streams). non-trivial: an eos strictly inside the "
            "tensor / a path that ended before the step limit / >= 1 repeated or blank frame removed; "
            "distinct by the full case")
    assumptions = [
        "log_softmax/softmax are trusted primitives: exact stream replaces log_softmax by the identity "
        "on dyadic values, tolerance stream hands torch's own log_softmax values to the model",
        "torch.multinomial is replaced by a replay of chosen tokens (any token of positive probability)",
        "float rounding is not modelled; tolerance stream compares with (abs 2e-4 + rel 1e-5) x eps(input dtype)/eps(float32)",
        "the language model is a table from histories to rows, with a threaded state that is checked",
        "non-finite entries (garbage in ignored regions, -inf of classes that do not count) reach the "
        "implementation; the model gets the same tensor with those entries replaced by a finite filler "
        "(row minimum - 1): it is proved to ignore them (C07_seq_col, C07_greedy, C07_walk)",
        "argmax ties in greedy decoding are flagged and excluded from label equality",
    ]
    exhaustive = {"quick": False, "thorough": False}
    quick_budget_s = 150
    thorough_budget_s = 1000

    # ------------------------------------------------------------------ generators
    def cases(self, rng, tier):
        gens = [self.gen_dist(rng, tier), self.gen_sample(rng, tier), self.gen_walk(rng, tier),
                self.gen_seq(rng, tier), self.gen_packed(rng, tier), self.gen_greedy(rng, tier),
                self.gen_ctor(rng, tier), self.gen_advance(rng, tier), self.gen_lpraise(rng, tier)]
        # round robin so that a time budget cuts all kinds evenly
        live = list(gens)
        while live:
            nxt = []
            for g in live:
                got = 0
                try:
                    for _ in range(8):
                        yield next(g)
                        got += 1
                except StopIteration:
                    continue
                nxt.append(g)
            live = nxt

    # ---- seq
    def gen_seq(self, rng, tier):
        n = {"quick": 420, "thorough": 4000, "search": 6000}[tier]
        # malformed: dim out of range
        for nd, dim in ((1, 1), (1, -2), (2, 2), (3, -4)):
            shape = [2] * nd
            yield self.mk_seq(rng, shape, 2, dim, None, True)
        for i in range(n):
            nd = rng.choice([1, 2, 2, 3, 3, 4])
            shape = [rng.choice([0, 1, 2, 2, 3, 3]) for _ in range(nd)]
            # dim = 0 and eos = None are the documented defaults: reached often, so that the calls that
            # leave default-valued arguments out ("omit") really leave them out
            dim = 0 if rng.random() < 0.3 else rng.randrange(-nd, nd)
            d = dim % nd
            # V = 0 (no class at all): gather raises as soon as hyp has a cell
            V = rng.choice([1, 2, 3, 4, 1, 2, 3, 4, 1, 2, 3, 4, 0])
            eos_kind = rng.choice(["none", "in", "in", "in", "oov", "neg"])
            eos = {"none": None, "in": rng.randrange(max(V, 1)), "oov": V + rng.randrange(2),
                   "neg": -1 - rng.randrange(2)}[eos_kind]
            # a zero-size sequence dimension with eos set is generated too: _lens_from_eos used to raise
            # there (C01's finding in _string.py, repaired); every score is then the empty sum
            yield self.mk_seq(rng, shape, V, dim, eos, exact=(i % 2 == 0), dtype=rng.choice(DT_W),
                              lay=(rng.choice(LAY_W), rng.choice(LAY_W)))

    def mk_seq(self, rng, shape, V, dim, eos, exact, dtype="f32", lay=("contig", "contig")):
        n = prodl(shape)
        toks = list(range(V)) + [-1, V, V + 2, -2]
        w = [6] * V + [1, 1, 1, 1]
        if eos is not None:
            toks.append(eos)
            w.append(5)
        hyp = [rng.choices(toks, w)[0] for _ in range(n)]
        mag = 1 if exact else rng.choice(MAG_W)
        logits = [dyadic_logp(rng) if exact else rand_logit(rng, mag) for _ in range(n * V)]
        return {"kind": "seq", "mag": mag, "omit": rng.random() < 0.5, "shape": shape, "V": V, "dim": dim, "eos": eos, "exact": exact,
                "hyp": hyp, "logits": logits, "dtype": dtype, "lay_logits": lay[0], "lay_hyp": lay[1],
                "junk": junk_kinds(rng, n), "ret_edit": rng.choice(tl.EDIT_KINDS)}

    # ---- packed
    def gen_packed(self, rng, tier):
        maxN, maxL = {"quick": (3, 3), "thorough": (4, 3), "search": (4, 4)}[tier]
        pats = []
        for N in range(1, maxN + 1):
            pats += list(itertools.product(range(1, maxL + 1), repeat=N))
        reps = {"quick": 2, "thorough": 5, "search": 6}[tier]
        k = 0
        for _ in range(reps):
            for lens in pats:
                lens = list(lens)
                is_sorted = all(a >= b for a, b in zip(lens, lens[1:]))
                for enforce in ([True, False] if is_sorted else [False]):
                    k += 1
                    dim = [1, 0, -1, -2, 0][k % 5]
                    extra = rng.choice([0, 0, 1])
                    V = rng.choice([1, 2, 3])
                    yield self.mk_packed(rng, lens, enforce, dim, V, extra, exact=(k % 2 == 0),
                                         dtype=rng.choice(DT_W), lay=(rng.choice(LAY_W), rng.choice(LAY_W)),
                                         eos_arg=rng.choice([None, None, rng.randrange(V)]))
        # malformed: hyp shorter than the longest sequence
        yield self.mk_packed(rng, [3, 1], True, 1, 2, -1, True)
        # malformed: hyp with a sequence too many / too few; index tensors that point outside the batch
        for lens, enforce in (([3, 1], True), ([1, 3], False), ([2, 2, 1], True), ([1, 2, 2], False)):
            for dim in (1, 0):
                for rows in (-1, 1):
                    c = self.mk_packed(rng, lens, enforce, dim, 2, 0, True)
                    c["hyp_rows"] = rows
                    yield c
                if not enforce:
                    for which in ("sidx", "uidx"):
                        c = self.mk_packed(rng, lens, enforce, dim, 2, 0, True)
                        c["bad_index"] = which
                        yield c

    def mk_packed(self, rng, lens, enforce, dim, V, extra, exact, dtype="f32",
                  lay=("contig", "contig"), eos_arg=None):
        N, Tm = len(lens), max(lens)
        T = Tm + extra
        toks = list(range(V)) + [-1, V]
        hyp = [[rng.choices(toks, [6] * V + [1, 1])[0] for _ in range(T)] for _ in range(N)]
        mag = 1 if exact else rng.choice(MAG_W)
        logits = [[[dyadic_logp(rng) if exact else rand_logit(rng, mag) for _ in range(V)]
                   for _ in range(Tm)] for _ in range(N)]
        junk = junk_kinds(rng, N * Tm)
        if junk is not None:
            junk = [junk[n * Tm:(n + 1) * Tm] for n in range(N)]
        return {"kind": "packed", "mag": mag, "omit": rng.random() < 0.5, "lens": lens, "enforce_sorted": enforce, "dim": dim, "V": V,
                "hyp": hyp, "logits": logits, "exact": exact, "dtype": dtype, "lay_data": lay[0],
                "lay_hyp": lay[1], "eos_arg": eos_arg, "junk": junk, "ret_edit": rng.choice(tl.EDIT_KINDS)}

    # ---- walk
    def canonical_draws(self, V, T, eos):
        """every draw sequence of length T in which everything after the first eos is eos"""
        out = []
        for s in itertools.product(range(V), repeat=T):
            if eos is not None and eos in s:
                i = s.index(eos)
                if any(x != eos for x in s[i:]):
                    continue
            out.append(list(s))
        return out

    def gen_walk(self, rng, tier):
        Tmax = {"quick": 3, "thorough": 4, "search": 4}[tier]
        budget = {"quick": 14, "thorough": 120, "search": 200}[tier]
        k = 0
        for V in (2, 3):
            for T in list(range(0, Tmax + 1)) + [None]:
                # every eos index RandomWalk accepts: unset, 0..V-1 and the negative ones -V..-1
                for eos in [None] + list(range(V)) + list(range(-V, 0)):
                    e = None if eos is None else eos % V
                    if T is None:
                        if e is None:
                            continue
                        # no step limit: the walk ends when every path has drawn eos
                        seqs = [q for q in self.canonical_draws(V, Tmax, e) if e in q]
                    else:
                        seqs = self.canonical_draws(V, T, e)
                    for N, batched in ((1, False), (1, True), (2, True), (3, True)):
                        if N == 1:
                            combos = [[q] for q in seqs]
                        else:
                            combos = [[rng.choice(seqs) for _ in range(N)] for _ in range(budget)]
                        few = max(2, budget // 4)
                        if ((eos is not None and eos < 0) or N == 3 or T is None) and len(combos) > few:
                            combos = rng.sample(combos, few)
                        for paths in combos:
                            k += 1
                            exact = (k % 2 == 0)
                            steps = T if T is not None else max(q.index(e) for q in paths) + 1
                            sel, K = None, N
                            if rng.random() < 0.3:
                                # a language model conditioned on a batched input through the initial state
                                K = max(N, 2)
                                sel = [rng.randrange(K) for _ in range(N)]
                            tabs = lm_tables(rng, V, K, steps, e, exact)
                            draws = [[paths[n][t] for n in range(N)] for t in range(steps)]
                            mut, dj = lm_options(rng, e)
                            yield {"kind": "walk", "omit": rng.random() < 0.5, "V": V, "N": N, "batched": batched, "eos": eos,
                                   "max_iters": T, "tables": tabs, "default": lm_row(rng, V, exact),
                                   "draws": draws, "exact": exact, "sel": sel,
                                   "dtype": rng.choice(DT_W), "lm_layout": rng.choice(LAY_W),
                                   "lm_mut": mut, "default_junk": dj, "cache": rng.random() < 0.5,
                                   "ret_edit": rng.choice(tl.EDIT_KINDS)}

    # ---- advance: the step function called directly (with and without prefix lengths)
    def gen_advance(self, rng, tier):
        n = {"quick": 150, "thorough": 1500, "search": 2000}[tier]
        for bad in ("lp_t_dim", "lp_prev_shape", "y_prev_dim", "y_prev_width", "lens_shape", "lens_beyond"):
            yield self.mk_advance(rng, 2, 2, 2, True, bad=bad)
        for i in range(n):
            N = rng.choice([1, 2, 3])
            S = rng.choice([0, 1, 2, 3])
            yield self.mk_advance(rng, rng.choice([1, 2, 3]), N, S, rng.random() < 0.7)

    def mk_advance(self, rng, V, N, S, with_lens, bad=None):
        y_prev = [[rng.randrange(V) for _ in range(N)] for _ in range(S)]
        lens = None
        if with_lens:
            # all prefixes full / all short (no growth) / mixed
            mode = rng.choice(["full", "short", "mixed"])
            lens = [S if mode == "full" else rng.randrange(0, max(S, 1)) if mode == "short" or rng.random() < 0.5
                    else S for _ in range(N)]
        return {"kind": "advance", "omit": rng.random() < 0.5, "V": V, "N": N, "S": S, "y_prev": y_prev, "lens": lens,
                "lp_t": [[dyadic_logp(rng, -6 * 8, 0) for _ in range(V)] for _ in range(N)],
                "lp_prev": [dyadic_logp(rng, -20 * 8, 0) for _ in range(N)],
                "draw": [rng.randrange(V) for _ in range(N)], "bad": bad,
                "dtype": rng.choice(DT_W), "lay_lp": rng.choice(LAY_W), "lay_y": rng.choice(LAY_W),
                "ret_edit": rng.choice(tl.EDIT_KINDS)}

    # ---- ctor: argument errors of the walk and the wrapper
    def gen_ctor(self, rng, tier):
        for V in (1, 2, 3):
            for eos in (V, V + 1, -V - 1):
                yield {"kind": "ctor", "what": "walk_eos_range", "V": V, "eos": eos}
            yield {"kind": "ctor", "what": "walk_no_limit", "V": V, "eos": None}
            yield {"kind": "ctor", "what": "walk_negative_limit", "V": V, "eos": rng.choice([None, 0]),
                   "max_iters": -rng.randrange(1, 3)}
            yield {"kind": "ctor", "what": "dist_no_limit", "V": V, "eos": None}
            yield {"kind": "ctor", "what": "dist_no_enumeration", "V": V, "eos": rng.randrange(-V, V)}
            yield {"kind": "ctor", "what": "dist_batch_size", "V": V, "eos": None, "N": rng.choice([0, -1])}
            yield {"kind": "ctor", "what": "constraint_no_limit", "V": V, "eos": None}

    # ---- dist
    def gen_dist(self, rng, tier):
        Tmax = {"quick": 3, "thorough": 4, "search": 4}[tier]
        reps = {"quick": 1, "thorough": 3, "search": 4}[tier]
        for _ in range(reps):
            for V in (2, 3):
                for T in range(1, Tmax + 1):
                    for eos in [None] + list(range(V)) + list(range(-V, 0)):
                        e = None if eos is None else eos % V
                        for N in (None, 1, 2):
                            if eos is not None and eos < 0 and N == 1:
                                continue
                            sel, K = None, N or 1
                            if rng.random() < 0.3:
                                K = max(K, 2)
                                sel = [rng.randrange(K) for _ in range(N or 1)]
                            tabs = lm_tables(rng, V, K, T, e, False, probs=True)
                            mut, dj = lm_options(rng, e)
                            yield {"kind": "dist", "V": V, "N": N, "eos": eos, "max_iters": T,
                                   "tables": tabs, "default": lm_row(rng, V, False, probs=True),
                                   "values": self.dist_values(rng, V, T, e), "exact": False,
                                   "sel": sel, "shared": N is None,
                                   "validate_args": rng.choice([True, True, None, False]),
                                   "lm_mut": mut, "default_junk": dj, "cache": rng.random() < 0.5,
                                   "ret_edit": rng.choice(tl.EDIT_KINDS),
                                   # expanded / unexpanded support in every order, 2-3 calls
                                   "supp_calls": [rng.random() < 0.5 for _ in range(rng.choice([2, 3]))]}

    def dist_values(self, rng, V, T, eos):
        """rows whose validity is asked: every length 1..T+1, with/without eos, OOV before/after eos"""
        vals = []
        for L in range(1, T + 2):
            for _ in range(3):
                s = [rng.randrange(V) for _ in range(L)]
                vals.append(s)
                if eos is not None:
                    s2 = list(s)
                    s2[rng.randrange(L)] = eos
                    vals.append(s2)
                    s3 = list(s2)
                    j = rng.randrange(L)
                    s3[j] = V + 1
                    vals.append(s3)
                else:
                    s3 = list(s)
                    s3[rng.randrange(L)] = rng.choice([-1, V])
                    vals.append(s3)
            if eos is not None:
                vals.append([eos] * L)
        return vals

    # ---- sample
    SAMPLE_SHAPES = ([], [1], [2], [3], [2, 2], [1, 2], [2, 1, 2], [0], [2, 0])

    def gen_sample(self, rng, tier):
        reps = {"quick": 2, "thorough": 20, "search": 30}[tier]
        k = 0
        for r in range(reps):
            for V in (2, 3):
                for eos in [None] + list(range(V)) + list(range(-V, 0)):
                    e = None if eos is None else eos % V
                    for N in (None, 1, 2):
                        for shape in self.SAMPLE_SHAPES:
                            if eos is not None and eos < 0 and (N == 1 or shape in ([1], [2, 0], [1, 2], [2, 1, 2])):
                                continue
                            T = rng.choice([1, 2, 3])
                            limit = T
                            M = prodl(shape)
                            seqs = self.canonical_draws(V, T, e)
                            if e is not None and rng.random() < 0.2:
                                # no step limit: every path draws eos
                                limit = None
                                seqs = [q for q in seqs if e in q]
                            exact = bool(r % 2)

                            early = [q for q in seqs if e is not None and e in q[:-1]]

                            def group(n):
                                # sometimes every walk of the group ends before the step limit
                                pool = early if early and rng.random() < 0.3 else seqs
                                paths = [rng.choice(pool) for _ in range(n)]
                                steps = T if limit is not None else max(q.index(e) for q in paths) + 1
                                return [[paths[j][t] for j in range(n)] for t in range(steps)]

                            sel = None
                            if N is None:
                                draws = group(M) if M else []
                                K = 1
                                if rng.random() < 0.3:
                                    K = 2
                                    sel = [rng.randrange(K)]
                            else:
                                draws = [group(N) for _ in range(M)]
                                K = N
                                if rng.random() < 0.3:
                                    K = max(N, 2)
                                    sel = [rng.randrange(K) for _ in range(N)]
                            tabs = lm_tables(rng, V, K, T, e, exact)
                            mut, dj = lm_options(rng, e)
                            k += 1
                            yield {"kind": "sample", "V": V, "N": N, "shape": shape, "eos": eos,
                                   "max_iters": limit, "tables": tabs, "default": lm_row(rng, V, exact),
                                   "draws": draws, "exact": exact, "sel": sel, "shared": N is None,
                                   "validate_args": rng.choice([True, True, None, False]),
                                   "dtype": rng.choice(DT_W), "lm_layout": rng.choice(LAY_W),
                                   "lm_mut": mut, "default_junk": dj,
                                   "ret_edit": rng.choice(tl.EDIT_KINDS),
                                   "supp_calls": [rng.random() < 0.5 for _ in range(2)],
                                   "script": self.sample_script(rng, shape, N, k)}

    # The calls made on ONE distribution object (once with cache_samples=True, once without; the
    # never-caching object is the reference). The tensors the caller holds are numbered (`ref`); the
    # content of a tensor is a list of draws of the first sample (`draws`, with repetition) arranged
    # in a sample shape `sshape`, i.e. a tensor of shape sshape + batch_shape + (S,).
    #   {"op": "sample", "ref": r}                          t_r = dist.sample(shape) (the same draws again)
    #   {"op": "new", "ref": r, "draws", "sshape", ...}     t_r = a new tensor (dtype / memory layout / batch
    #                                                       elements swapped as given)
    #   {"op": "set", "ref": r, "draws", "sshape"}          t_r.copy_(...): the caller edits its tensor in place
    #   {"op": "lp", "ref": r, "id": i}                     dist.log_prob(t_r)
    #   {"op": "edit", "id": i}                             the scores call i returned are edited in place (-= 1)
    #   {"op": "clear"}                                     dist.clear_cache()
    VALUE_KINDS = ("full", "alt", "part", "one", "flat", "grid", "pick", "pick", "empty")
    SEGMENTS = ("twice", "equal_copy", "between", "cleared", "resample", "edit_value", "edit_sample",
                "edit_scores", "reshaped", "hit_after_sample", "edit_resample")

    @staticmethod
    def sshapes_of(m, rng):
        """sample shapes with m draws"""
        out = [[m], [1, m], [m, 1], [1, 1, m]]
        if m == 1:
            out.append([])
        for a in range(2, m):
            if m % a == 0:
                out.append([a, m // a])
        return out

    def value_content(self, rng, kind, shape, N):
        """-> (draws, sshape) or None when the sample has no such value"""
        M = prodl(shape)
        if kind == "full":
            return list(range(M)), list(shape)
        if kind == "alt":
            return ([(i - 1) % M for i in range(M)], list(shape)) if M >= 2 else None
        if kind == "part":
            return (list(range(1, M)), [M - 1]) if M >= 2 else None
        if kind == "one":
            return [rng.randrange(M)], []
        if kind == "flat":
            return list(range(M)), [M]
        if kind == "grid":
            return list(range(M)), rng.choice(self.sshapes_of(M, rng))
        if kind == "empty":
            return [], rng.choice([[0], [2, 0], [0, 1]])
        m = rng.choice([1, 1, 2, 2, 3, 4])
        return [rng.randrange(M) for _ in range(m)], rng.choice(self.sshapes_of(m, rng))

    def sample_script(self, rng, shape, N, k, segments=None):
        M = prodl(shape)
        ops = [{"op": "sample", "ref": 0}]
        if M == 0:
            return ops + [{"op": "lp", "ref": 0, "id": 0}]
        st = {"ref": 1, "id": 0}
        made = {}

        def new(content, plain=False):
            r = st["ref"]
            st["ref"] += 1
            op = {"op": "new", "ref": r, "draws": content[0], "sshape": content[1]}
            if not plain:
                if rng.random() < 0.25:
                    op["dtype"] = rng.choice(["f32", "f64", "i32"])
                if rng.random() < 0.25:
                    op["lay"] = rng.choice(["perm", "strided", "offset"])
                if N == 2 and rng.random() < 0.2:
                    op["swap"] = True
                if content[0] and rng.random() < 0.2:
                    # the paths padded with eos up to the step limit (a no-op when the sample is that
                    # wide already, or without eos / step limit)
                    op["pad"] = True
            ops.append(op)
            made[r] = op
            return r

        def sample():
            r = st["ref"]
            st["ref"] += 1
            ops.append({"op": "sample", "ref": r})
            return r

        def lp(r):
            ops.append({"op": "lp", "ref": r, "id": st["id"]})
            st["id"] += 1
            return st["id"] - 1

        def content(kinds=None):
            while True:
                c = self.value_content(rng, rng.choice(kinds or self.VALUE_KINDS), shape, N)
                if c is not None:
                    return c

        def other(c):
            """another content of the same shape (None: the sample has a single draw)"""
            if not c[0] or M < 2:
                return None
            d = list(c[0])
            j = rng.randrange(len(d))
            d[j] = (d[j] + 1 + rng.randrange(M - 1)) % M
            return d, list(c[1])

        def any_tensor(kinds=None):
            """a tensor the caller holds: a fresh sample, the first sample, or one it built"""
            x = rng.random()
            if x < 0.2:
                return sample(), (list(range(M)), list(shape))
            if x < 0.35:
                return 0, (list(range(M)), list(shape))
            c = content(kinds)
            return new(c), c

        # every script has a log_prob answered from an entry that log_prob itself wrote; the kind of
        # value rotates with the case counter so that every sample shape class meets every kind
        first = ("full", "one", "pick", "grid", "alt", "flat", "part")[k % 7]
        names = list(segments) if segments is not None else \
            ["twice:" + first] + [rng.choice(self.SEGMENTS) for _ in range(2)]
        if segments is None:
            rng.shuffle(names)
        for name in names:
            if name.startswith("twice"):
                kind = name.split(":")[1] if ":" in name else None
                c = (self.value_content(rng, kind, shape, N) if kind else None) or content(("full", "one", "pick"))
                r = new(c)
                lp(r)
                lp(r)
            elif name == "hit_after_sample":
                lp(0)
            elif name == "equal_copy":
                c = content()
                lp(new(c))
                lp(new(c))
            elif name == "between":
                r1, _ = any_tensor()
                r2, _ = any_tensor()
                lp(r1)
                lp(r2)
                lp(r1)
            elif name == "cleared":
                r, _ = any_tensor()
                lp(r)
                ops.append({"op": "clear"})
                lp(r)
                lp(r)
            elif name == "resample":
                r = sample()
                lp(r)
                if rng.random() < 0.5:
                    lp(new((list(range(M)), list(shape))))
            elif name == "edit_value":
                c = content(("full", "alt", "part", "one", "flat", "grid", "pick"))
                o = other(c)
                if o is None:
                    continue
                r = new(c)
                lp(r)
                ops.append({"op": "set", "ref": r, "draws": o[0], "sshape": o[1], "swap": bool(made[r].get("swap")),
                            "pad": bool(made[r].get("pad"))})
                lp(r)
                if rng.random() < 0.5:
                    lp(new(c, plain=True))
            elif name == "edit_sample":
                c = (list(range(M)), list(shape))
                o = other(c)
                if o is None:
                    continue
                r = sample() if rng.random() < 0.6 else 0
                if rng.random() < 0.6:
                    lp(r)
                ops.append({"op": "set", "ref": r, "draws": o[0], "sshape": o[1]})
                lp(r)
            elif name == "edit_resample":
                # the tensor sample() returned is edited in place, then sample() is called again
                # (same draws): the new sample is what a fresh object returns, and scores as such
                c = (list(range(M)), list(shape))
                o = other(c)
                if o is None:
                    continue
                r = sample() if rng.random() < 0.6 else 0
                ops.append({"op": "set", "ref": r, "draws": o[0], "sshape": o[1]})
                r2 = sample()
                lp(r2)
                if rng.random() < 0.5:
                    lp(r)
            elif name == "edit_scores":
                r, _ = any_tensor()
                i = lp(r)
                if rng.random() < 0.5:
                    i = lp(r)
                ops.append({"op": "edit", "id": i})
                lp(r)
            elif name == "reshaped":
                # the same rows in two different shapes
                c = content(("full", "pick", "flat"))
                alts = [ss for ss in self.sshapes_of(len(c[0]), rng) if ss != c[1]]
                r1 = new(c)
                r2 = new((c[0], rng.choice(alts)))
                lp(r1)
                lp(r2)
                lp(r1)
        return ops

    # ---- lpraise: log_prob call sequences on one caching distribution whose language model raises
    LPRAISE_TRACES = {
        # indices into values = [good, bad, good2]; "c" = clear_cache()
        "stale": [0, 1, 1, 0, 2],        # after the failed call the cache names `bad` with the scores of `good`
        "fresh": [1, 1],                 # first call on an empty cache fails, second trips the assert
        "cleared": [0, 1, "c", 1, 0],    # clear_cache() between the failed call and its repetition
        "clean": [0, 2, 0, 0],           # no call reaches the raising scorer
    }

    def gen_lpraise(self, rng, tier):
        reps = {"quick": 1, "thorough": 4, "search": 6}[tier]
        for _ in range(reps):
            for V in (2, 3):
                for T in (3, 4):
                    for N in (None, 1, 2):
                        for eos in [None] + list(range(V)):
                            for trace in self.LPRAISE_TRACES:
                                # garbage after the first eos passes validation; without eos (or with
                                # validation off) the out-of-vocabulary token sits anywhere but last
                                va = False if eos is None else rng.choice([True, None, False])
                                n = N or 1
                                supp = self.py_support(V, T, eos)

                                def bad_row():
                                    r = list(rng.choice(supp))
                                    if eos is not None and va is not False:
                                        r = [rng.randrange(V) for _ in range(rng.randrange(0, T - 2))]
                                        r = [x for x in r if x != eos] + [eos]
                                        r += [rng.randrange(V) for _ in range(T - len(r))]
                                        j = rng.randrange(r.index(eos) + 1, T - 1)
                                    else:
                                        j = rng.randrange(0, T - 1)
                                    r[j] = V + rng.randrange(0, 2)
                                    return r
                                good = [list(rng.choice(supp)) for _ in range(n)]
                                good2 = [list(rng.choice(supp)) for _ in range(n)]
                                if good2 == good:
                                    good2 = [list(supp[(supp.index(r) + 1) % len(supp)]) for r in good]
                                bad = [list(rng.choice(supp)) for _ in range(n)]
                                bad[rng.randrange(n)] = bad_row()
                                yield {"kind": "lpraise", "V": V, "N": N, "eos": eos, "max_iters": T,
                                       "tables": lm_tables(rng, V, n, T, eos, True), "default": lm_row(rng, V, True),
                                       "exact": True, "validate_args": va, "values": [good, bad, good2],
                                       "trace": trace, "shared": N is None, "sel": None}

    def impl_lpraise(self, case):
        import torch
        from pydrobert.torch.modules import RandomWalk
        from pydrobert.torch.distributions import SequentialLanguageModelDistribution
        V, N, T = case["V"], case["N"], case["max_iters"]
        lm = tl.make_lm(V, case["tables"], case["default"], case["eos"], shared=N is None, raise_oov=True)
        walk = RandomWalk(lm, case["eos"])
        obs = {}
        with tl.identity_log_softmax():
            for cache in (True, False):
                dist = SequentialLanguageModelDistribution(walk, N, None, T, cache_samples=cache,
                                                           validate_args=case["validate_args"])
                outs = []
                for op in self.LPRAISE_TRACES[case["trace"]]:
                    if op == "c":
                        dist.clear_cache()
                        continue
                    rows = case["values"][op]
                    value = torch.tensor(rows, dtype=torch.long).view([1] + ([] if N is None else [N]) + [T])
                    try:
                        lp = dist.log_prob(value)
                        outs.append({"shape": list(lp.shape), "data": [tl.fs(x) for x in lp.reshape(-1).tolist()]})
                    except Exception as ex:
                        outs.append({"error": type(ex).__name__, "message": str(ex)[:120]})
                obs["cached" if cache else "fresh"] = outs
        return obs

    def req_lpraise(self, case):
        N = case["N"]
        tabs = tables_for(case, N or 1)
        return {"op": "c07.lpraise", "case": {
            "V": case["V"], "N": N, "eos": case["eos"], "max_iters": case["max_iters"],
            "lm": tables_json(tabs, True), "lm_default": tl.lsm_rows([case["default"]], True)[0],
            "validate_args": case["validate_args"], "values": case["values"],
            "trace": [{"op": "clear"} if op == "c" else {"op": "lp", "val": op}
                      for op in self.LPRAISE_TRACES[case["trace"]]]}}

    @staticmethod
    def lp_same(a, b):
        """two log_prob outcomes agree: the same error class, or the same shape and scores"""
        if "error" in a or "error" in b:
            return "error" in a and "error" in b and a["error"] == b["error"]
        return a["shape"] == b["shape"] and all_close(a["data"], b["data"], True)

    @staticmethod
    def lp_model(o):
        return {"error": o} if isinstance(o, str) else o

    def lpraise_variant(self, impl, model):
        """which language-model contract the implementation follows: log_prob hands the value to the
        model as it is (code as pinned: an out-of-vocabulary token anywhere in hist[:-1] raises), or
        with everything after the first eos replaced by eos (proposed repair: only a token before the
        first eos raises). Decided by the never-caching object; -> the model reply of that variant"""
        same = lambda xs, ys: len(xs) == len(ys) and all(self.lp_same(x, self.lp_model(y)) for x, y in zip(xs, ys))
        if not self.err(impl) and not same(impl["fresh"], model["spec"]["reference"]) \
                and same(impl["fresh"], model["filled"]["spec"]["reference"]):
            return model["filled"]
        return model

    def cmp_lpraise(self, case, impl, model):
        if self.err(impl):
            return [f"implementation raised {impl['error']}: {impl.get('message')}"]
        for var in (model, model["filled"]):
            m = {k: [self.lp_model(o) for o in v] for k, v in var["model"].items()}
            ref = [self.lp_model(o) for o in var["spec"]["reference"]]
            if m["repaired_cached"] != ref or m["repaired_fresh"] != ref or m["pinned_fresh"] != ref:
                raise RuntimeError("internal: the repaired / cache-free state machine differs from the reference "
                                   "(C07_log_prob_cache)")
            if var["flags"]["scorable"] and m["pinned_cached"] != ref:
                raise RuntimeError("internal: pinned state machine differs from the reference although no call "
                                   "reaches a raising scorer (C07_log_prob_cache_pinned_partial)")
        var = self.lpraise_variant(impl, model)
        m = {k: [self.lp_model(o) for o in v] for k, v in var["model"].items()}
        out = []
        same = lambda xs, ys: len(xs) == len(ys) and all(self.lp_same(x, y) for x, y in zip(xs, ys))
        if not same(impl["fresh"], m["pinned_fresh"]):
            out.append(f"cache_samples=False: impl={impl['fresh']} model={m['pinned_fresh']} "
                       f"(model with fill_after_eos before the language model: "
                       f"{model['filled']['model']['pinned_fresh']})")
        # the caching object follows the pinned write order (samples cached before scoring) or the repaired one
        if not same(impl["cached"], m["pinned_cached"]) and not same(impl["cached"], m["repaired_cached"]):
            out.append(f"cache_samples=True: impl={impl['cached']} model(pinned order)={m['pinned_cached']} "
                       f"model(repaired order)={m['repaired_cached']}")
        return out

    def pred_lpraise(self, case, impl, model):
        if self.err(impl):
            return [(f"log_prob sequence raised {impl['error']}: {impl.get('message')}", None)]
        var = self.lpraise_variant(impl, model)
        ref = [self.lp_model(o) for o in var["spec"]["reference"]]
        pinned = [self.lp_model(o) for o in var["model"]["pinned_cached"]]
        fails = []
        ops = [op for op in self.LPRAISE_TRACES[case["trace"]] if op != "c"]
        for key in ("fresh", "cached"):
            for i, (o, r) in enumerate(zip(impl[key], ref)):
                if self.lp_same(o, r):
                    continue
                sig = None
                # the known defect: exactly what the pinned write order gives (scores of the value scored
                # before the failed call, or the internal AssertionError on an empty cache)
                if key == "cached" and r.get("error") == "IndexError" \
                        and self.lp_same(o, pinned[i]) and i > 0 and ops[i] == ops[i - 1] == 1:
                    sig = "C07.log_prob.cache_after_exception"
                what = "raised " + o["error"] if "error" in o else f"returned {self.call_str(o)}"
                want = self.call_str(r) if "error" not in r else "raises " + r["error"]
                fails.append((f"cache_samples={key == 'cached'}: log_prob call {i} (value {ops[i]} of "
                              f"{case['values']}, trace {case['trace']}) {what}; a distribution that never "
                              f"caches {want} (the language model raises IndexError on out-of-vocabulary "
                              f"history tokens)", sig))
        return fails

    # ---- greedy
    def gen_greedy(self, rng, tier):
        n = {"quick": 420, "thorough": 4000, "search": 6000}[tier]
        # malformed
        yield self.mk_greedy(rng, 1, 2, 3, 3, True, False, "probs")
        yield self.mk_greedy(rng, 1, 2, 3, -4, True, False, "probs")
        for i in range(n):
            V = rng.choice([1, 2, 3, 4])
            N = rng.choice([1, 1, 2, 3])
            T = rng.choice([0, 1, 2, 3, 4, 5])
            # -1 / no lens / time-major / logits are the documented defaults (see "omit")
            blank = -1 if rng.random() < 0.3 else rng.randrange(-V, V)
            stream = ["probs", "logp", "tol"][i % 3]
            yield self.mk_greedy(rng, N, T, V, blank, rng.random() < 0.75, rng.random() < 0.5, stream,
                                 dtype=rng.choice(DT_W), lay=(rng.choice(LAY_W), rng.choice(LAY_W)))

    def mk_greedy(self, rng, N, T, V, blank, with_lens, batch_first, stream, dtype="f32",
                  lay=("contig", "contig")):
        frames = []
        mag = rng.choice(MAG_W) if stream == "tol" else 1
        for n in range(N):
            fr = []
            prev = None
            for t in range(T):
                if stream == "tol":
                    row = [rand_logit(rng, mag) for _ in range(V)]
                else:
                    if stream == "probs":
                        pool = [Fraction(k, 16) for k in (8, 4, 2, 1, 1, 3)]
                    else:
                        pool = [Fraction(-k, 8) for k in (1, 5, 9, 14, 14, 20)]
                    vals = pool[:V] if rng.random() < 0.9 else [pool[0]] + [rng.choice(pool) for _ in range(V - 1)]
                    vals = list(vals)
                    rng.shuffle(vals)
                    if prev is not None and rng.random() < 0.4:
                        vals = prev  # repeated frame -> repeated label
                    prev = vals
                    row = [frac_str(v) for v in vals]
                fr.append(row)
            frames.append(fr)
        lens = [rng.randrange(0, T + 2) for _ in range(N)] if with_lens else None
        junk = junk_kinds(rng, N * T)
        if junk is not None:
            junk = [junk[n * T:(n + 1) * T] for n in range(N)]
        return {"kind": "greedy", "mag": mag, "omit": rng.random() < 0.5, "V": V, "blank": blank, "batch_first": batch_first,
                "stream": stream, "frames": frames, "lens": lens, "T": T, "dtype": dtype,
                "lay_logits": lay[0], "lay_lens": lay[1], "junk": junk, "ret_edit": rng.choice(tl.EDIT_KINDS)}

    # ------------------------------------------------------------------ implementation
    def run_impl(self, case):
        return getattr(self, "impl_" + case["kind"])(case)

    def model_request(self, case):
        return getattr(self, "req_" + case["kind"])(case)

    # ---- seq
    @staticmethod
    def seq_ignored(case):
        """positions whose scores the property says are ignored: out-of-vocabulary tokens and
        everything after the first eos along the sequence dimension"""
        import torch
        shape, V, eos = case["shape"], case["V"], case["eos"]
        hyp = torch.tensor(case["hyp"], dtype=torch.long).view(shape)
        ign = (hyp < 0) | (hyp >= V)
        nd = len(shape)
        if eos is not None and -nd <= case["dim"] < nd:
            d = case["dim"] % nd
            is_eos = (hyp == eos).long()
            ign = ign | ((is_eos.cumsum(d) - is_eos) > 0)
        return ign

    def seq_tensors(self, case):
        import torch
        shape, V = case["shape"], case["V"]
        hyp = torch.tensor(case["hyp"], dtype=torch.long).view(shape)
        logits = tl.from_fracs(case["logits"], case.get("dtype")).view(shape + [V])
        if case.get("junk") and logits.numel():
            # -inf may go to any class but the chosen token's
            allowed = torch.arange(V).expand(shape + [V]) != hyp.unsqueeze(-1)
            logits = tl.put_junk(logits, self.seq_ignored(case), case["junk"], allowed)
        return tl.relayout(logits, case.get("lay_logits")), tl.relayout(hyp, case.get("lay_hyp"))

    def impl_seq(self, case):
        import torch
        from pydrobert.torch.functional import sequence_log_probs
        from pydrobert.torch.modules import SequenceLogProbabilities
        logits, hyp = self.seq_tensors(case)
        l0, h0 = logits.clone(), hyp.clone()
        ctx = tl.identity_log_softmax() if case["exact"] else _null()
        with ctx:
            # "omit": arguments that have their documented default value are left out (functional and module)
            om, opt = bool(case.get("omit")), (case["dim"], case["eos"])
            out = tl.call(sequence_log_probs, "sequence_log_probs", (logits, hyp), opt, om)
            mod = tl.call(SequenceLogProbabilities, "SequenceLogProbabilities", (), opt, om)
            out2 = mod(logits, hyp)
            obs = {"shape": list(out.shape), "out": [tl.fs(x) for x in out.flatten().tolist()],
                   "module_same": bool(torch.equal(out, out2)),
                   "dtypes": [tl.dtype_name(out), tl.dtype_name(out2)]}
            # the caller edits what it was handed back, in place, and asks the same objects again
            o0 = out.clone()
            kept = [(t, tl.scribble(t, ret_kind(case))) for t in (out, out2)]
            obs["again_same"] = bool(tl.same_tensor(mod(logits, hyp), o0)
                                     and tl.same_tensor(tl.call(sequence_log_probs, "sequence_log_probs",
                                                                (logits, hyp), opt, not om), o0))
            obs["returned_kept"] = all(tl.same_tensor(t, c) for t, c in kept)
        obs["inputs_same"] = bool(tl.same_tensor(l0, logits) and torch.equal(h0, hyp))
        return obs

    def req_seq(self, case):
        import torch
        logits, hyp = self.seq_tensors(case)
        # the model gets what the implementation's log_softmax returns, the non-finite entries
        # (garbage in ignored positions, -inf of classes that were not chosen) replaced
        lsm = tl.finite_fill(logits if case["exact"] else torch.nn.functional.log_softmax(logits, -1))
        nd = len(case["shape"])
        cols = None
        if -nd <= case["dim"] < nd:
            d = case["dim"] % nd
            nc = prodl(case["shape"][:d] + case["shape"][d + 1:])
            h2 = hyp.movedim(d, -1).reshape(nc, case["shape"][d])
            l2 = lsm.movedim(d, -2).reshape(nc, case["shape"][d], case["V"])
            cols = [{"hyp": h2[i].tolist(), "lsm": tl.tensor_fracs(l2[i]) if case["shape"][d] else []}
                    for i in range(h2.size(0))]
        return {"op": "c07.seq", "case": {
            "shape": case["shape"], "V": case["V"], "dim": case["dim"], "eos": case["eos"],
            "lsm": [tl.fs(x) for x in lsm.flatten().tolist()], "hyp": case["hyp"], "cols": cols}}

    # ---- packed
    def packed_objs(self, case):
        import torch
        from torch.nn.utils.rnn import pack_padded_sequence, PackedSequence
        logits = tl.from_fracs(case["logits"], case.get("dtype"))
        N = len(case["lens"])
        logits = logits.view(N, max(case["lens"]), case["V"])
        lens = torch.tensor(case["lens"])
        if case.get("junk"):
            # ignored: the padding frames (never packed; seen by the padded reference call) and
            # the frames whose token is out of the vocabulary; elsewhere -inf may go to any class
            # but the chosen token's
            Tm, V = logits.size(1), case["V"]
            h = torch.tensor(case["hyp"], dtype=torch.long).view(N, -1)
            ign = torch.arange(Tm).unsqueeze(0) >= lens.unsqueeze(1)
            allowed = None
            if h.size(1) >= Tm:
                ign = ign | (h[:, :Tm] < 0) | (h[:, :Tm] >= V)
                allowed = torch.arange(V).expand(N, Tm, V) != h[:, :Tm].unsqueeze(-1)
            logits = tl.put_junk(logits, ign, case["junk"], allowed)
        ps = pack_padded_sequence(logits, lens, batch_first=True, enforce_sorted=case["enforce_sorted"])
        if case.get("lay_data") not in (None, "contig"):
            ps = PackedSequence(tl.relayout(ps.data, case["lay_data"]), ps.batch_sizes,
                                ps.sorted_indices, ps.unsorted_indices)
        if case.get("bad_index"):
            # an index tensor that points outside the batch (the PackedSequence constructor does not check)
            si, ui = ps.sorted_indices.clone(), ps.unsorted_indices.clone()
            (si if case["bad_index"] == "sidx" else ui)[0] = N
            ps = PackedSequence(ps.data, ps.batch_sizes, si, ui)
        hyp = torch.tensor(case["hyp"], dtype=torch.long).view(N, -1)
        if case.get("hyp_rows", 0) > 0:
            hyp = torch.cat([hyp, hyp[:1]], 0)      # one sequence more than the packed batch
        elif case.get("hyp_rows", 0) < 0:
            hyp = hyp[:-1]                           # one sequence less
        hyp = tl.relayout(hyp, case.get("lay_hyp"))
        return logits, lens, ps, hyp

    def impl_packed(self, case):
        import torch
        from pydrobert.torch.functional import sequence_log_probs
        logits, lens, ps, hyp = self.packed_objs(case)
        dim = case["dim"]
        h = hyp if dim in (1, -1) else hyp.t()
        d0, h0 = ps.data.clone(), h.clone()
        ctx = tl.identity_log_softmax() if case["exact"] else _null()
        with ctx:
            # documented: `eos` is ignored when `logits` is a packed sequence
            om, opt = bool(case.get("omit")), (dim, case.get("eos_arg"))
            if case.get("eos_arg") is None and not om:
                out = sequence_log_probs(ps, h, dim)
            else:
                out = tl.call(sequence_log_probs, "sequence_log_probs", (ps, h), opt, om)
            # the same sequences as a padded tensor: positions beyond the length are made padding
            Tm = logits.size(1)
            hp = hyp[:, :Tm].clone() if hyp.size(1) >= Tm and hyp.size(0) == logits.size(0) else None
            padded = pad_dtype = None
            if hp is not None:
                hp[torch.arange(Tm).unsqueeze(0) >= lens.unsqueeze(1)] = -1
                try:
                    pad_out = tl.call(sequence_log_probs, "sequence_log_probs", (logits, hp), (1, None), om)
                    padded = [tl.fs(x) for x in pad_out.tolist()]
                    pad_dtype = tl.dtype_name(pad_out)
                except Exception as ex:  # the padded-tensor path, not the packed one, raised
                    padded = {"error": type(ex).__name__, "message": str(ex)[:160]}
            obs = {"out": [tl.fs(x) for x in out.tolist()], "padded": padded,
                   "dtypes": [tl.dtype_name(out)] + ([pad_dtype] if pad_dtype else [])}
            o0 = out.clone()
            kept = tl.scribble(out, ret_kind(case))
            again = sequence_log_probs(ps, h, dim) if case.get("eos_arg") is None else \
                sequence_log_probs(ps, h, dim, case["eos_arg"])
            obs["again_same"] = bool(tl.same_tensor(again, o0))
            obs["returned_kept"] = bool(tl.same_tensor(out, kept))
        obs["inputs_same"] = bool(tl.same_tensor(d0, ps.data) and torch.equal(h0, h))
        return obs

    def req_packed(self, case):
        import torch
        logits, lens, ps, hyp = self.packed_objs(case)
        lsm = (lambda x: tl.finite_fill(x)) if case["exact"] else (
            lambda x: tl.finite_fill(torch.nn.functional.log_softmax(x, -1)))
        return {"op": "c07.packed", "case": {
            "V": case["V"], "N": hyp.size(0), "T": hyp.size(1),
            "rows": tl.tensor_fracs(lsm(ps.data)), "bs": ps.batch_sizes.tolist(),
            "sidx": None if ps.sorted_indices is None else ps.sorted_indices.tolist(),
            "uidx": None if ps.unsorted_indices is None else ps.unsorted_indices.tolist(),
            "hyp": hyp.tolist(), "lens": case["lens"], "padded": tl.tensor_fracs(lsm(logits))}}

    # ---- walk
    def walk_lm(self, case, shared=False):
        return tl.make_lm(case["V"], case["tables"], case["default"], norm_eos(case), shared=shared,
                          dtype=case.get("dtype"), layout=case.get("lm_layout"),
                          mutate=case.get("lm_mut"), default_junk=case.get("default_junk"))

    def impl_walk(self, case):
        import torch
        from pydrobert.torch.modules import RandomWalk
        from pydrobert.torch.functional import sequence_log_probs
        from pydrobert.torch.distributions import SequentialLanguageModelDistribution
        V, N, T = case["V"], case["N"], case["max_iters"]
        lm = self.walk_lm(case)
        # a language model may write into the dictionary it is handed: every direct call gets its
        # own dictionary (as the wrapper does with `initial_state.copy()`)
        om = bool(case.get("omit"))
        walk = tl.call(RandomWalk, "RandomWalk", (lm,), (case["eos"],), om)
        log = []
        ctx = (lambda: tl.identity_log_softmax()) if case["exact"] else _null
        with ctx(), tl.replay_multinomial(case["draws"], log):
            y, lens, lp = tl.call(walk, "RandomWalk.forward", (),
                                  (init_state(case), N if case["batched"] else None, T), om)
        lp_dtype = tl.dtype_name(lp)
        shape = [list(y.shape), list(lens.shape), list(lp.shape)]
        if not case["batched"]:
            y, lens, lp = y.unsqueeze(1), lens.unsqueeze(0), lp.unsqueeze(0)
        obs = {"shapes": shape, "rows": y.size(0), "lens": lens.tolist(),
               "y": [y[: int(lens[n]), n].tolist() for n in range(N)],
               "lp": [tl.fs(x) for x in lp.tolist()], "steps": len(log), "walk_eos": walk.eos,
               "unused_draws": len(case["draws"]) - len(log), "dtypes": [lp_dtype]}

        # what the walk handed back is the caller's: it edits all three tensors in place ...
        first = (y, lens, lp)
        y, lens, lp = y.clone(), lens.clone(), lp.clone()
        kept = [(t, tl.scribble(t, ret_kind(case), V)) for t in first]

        def again():
            # ... and calls the same walk object a second time with the same draws: nothing may be
            # left over, and the tensors of the first call stay as the caller left them
            with ctx(), tl.replay_multinomial(case["draws"], []):
                y2, lens2, lp2 = walk(init_state(case), N if case["batched"] else None, T)
            if not case["batched"]:
                y2, lens2, lp2 = y2.unsqueeze(1), lens2.unsqueeze(0), lp2.unsqueeze(0)
            if not all(tl.same_tensor(t, c) for t, c in kept):
                return "the tensors the first call returned changed during the second call"
            return bool(torch.equal(y2, y) and torch.equal(lens2, lens) and tl.same_tensor(lp2, lp))
        obs["walk_again_same"] = attempt(again)
        # the two other code paths: the wrapper's log_prob and sequence_log_probs on the LM's outputs
        if y.size(0) >= 1:
            with ctx():
                init = init_state(case)
                full = lm(y[:-1], dict() if init is None else init)
                obs["seq_lp"] = [tl.fs(x) for x in sequence_log_probs(full, y, 0, walk.eos).tolist()]
                init = init_state(case)
                snap = tl.state_snapshot(init or {})
                dist = tl.call(SequentialLanguageModelDistribution, "SequentialLanguageModelDistribution",
                               (walk,), (N, init, T, bool(case.get("cache")), True), om)
                first_y = y.clone()
                value = y.t().unsqueeze(0)
                obs["dist_lp_shapes"] = []

                def lp_of(v):
                    lp_ = dist.log_prob(v)
                    obs["dist_lp_shapes"].append(list(lp_.shape))
                    return [tl.fs(x) for x in lp_.reshape(-1).tolist()]
                obs["dist_lp"] = attempt(lambda: lp_of(value))
                # more calls on the same distribution object: log_prob again, a sample with the same
                # draws (one walk of batch size N), log_prob of that sample
                obs["dist_lp_again"] = attempt(lambda: lp_of(value))

                def resample():
                    with tl.replay_multinomial(case["draws"], []):
                        return dist.sample()
                smp = attempt(resample)
                if isinstance(smp, dict):
                    obs["dist_sample"] = smp
                else:
                    obs["dist_sample"] = smp.tolist()
                    v0 = smp.unsqueeze(0).clone()
                    obs["dist_sample_lp"] = attempt(lambda: lp_of(smp.unsqueeze(0)))
                    obs["value_same"] = bool(torch.equal(v0, smp.unsqueeze(0)))
                    # the sample is edited in place by the caller; a new sample with the same draws
                    # and its score are those of a fresh object
                    smp_kept = tl.scribble(smp, ret_kind(case), V)
                    smp2 = attempt(resample)
                    if isinstance(smp2, dict):
                        obs["dist_sample_again"] = smp2
                    else:
                        obs["dist_sample_again"] = smp2.tolist()
                        obs["dist_sample_again_lp"] = attempt(lambda: lp_of(smp2.unsqueeze(0)))
                        obs["sample_kept"] = bool(torch.equal(smp, smp_kept))
                obs["value_same"] = bool(obs.get("value_same", True) and torch.equal(value, y.t().unsqueeze(0))
                                         and torch.equal(y, first_y))
                obs["lm_rows_modified"] = lm.rows_modified()
                obs["init_changes"] = tl.state_changes(dist.initial_state, snap) + (
                    [] if init is None else tl.state_changes(init, snap))
        return obs

    def req_walk(self, case):
        T = case["max_iters"]
        return {"op": "c07.walk", "case": {
            "V": case["V"], "N": case["N"], "eos": norm_eos(case),
            "max_iters": NO_LIMIT if T is None else T,
            "lm": tables_json(tables_for(case, case["N"]), case["exact"], dtype=case.get("dtype")),
            "lm_default": tl.lsm_rows([case["default"]], case["exact"], case.get("dtype"))[0],
            "draws": case["draws"]}}

    # ---- advance
    def impl_advance(self, case):
        import torch
        from pydrobert.torch.functional import random_walk_advance
        V, N, S = case["V"], case["N"], case["S"]
        lp_t = tl.relayout(tl.from_fracs(case["lp_t"], case.get("dtype")).view(N, V), case.get("lay_lp"))
        lp_prev = tl.from_fracs(case["lp_prev"], case.get("dtype")).view(N)
        y_prev = tl.relayout(torch.tensor(case["y_prev"], dtype=torch.long).view(S, N), case.get("lay_y"))
        lens = None if case["lens"] is None else torch.tensor(case["lens"], dtype=torch.long)
        bad = case.get("bad")
        if bad == "lp_t_dim":
            lp_t = lp_t.unsqueeze(0)
        elif bad == "lp_prev_shape":
            lp_prev = torch.cat([lp_prev, lp_prev[:1]])
        elif bad == "y_prev_dim":
            y_prev = y_prev.unsqueeze(0)
        elif bad == "y_prev_width":
            y_prev = torch.cat([y_prev, y_prev[:, :1]], 1)
        elif bad == "lens_shape":
            lens = torch.cat([lens, lens[:1]])
        elif bad == "lens_beyond":
            # a prefix length beyond the rows of y_prev (+1 for the row that is appended): scatter raises
            lens = lens.clone()
            lens[0] = S + 1
        saved = (lp_t.clone(), lp_prev.clone(), y_prev.clone(), None if lens is None else lens.clone())
        log = []
        with tl.replay_multinomial([case["draw"]], log):
            y, lp = tl.call(random_walk_advance, "random_walk_advance", (lp_t, lp_prev, y_prev), (lens,),
                            bool(case.get("omit")))
        # both results are the caller's: it edits copies' originals in place (an input must not
        # change with them) and takes the same step again from the same prefix
        first = (y, lp)
        y, lp = y.clone(), lp.clone()
        kept = [(t, tl.scribble(t, ret_kind(case), V)) for t in first]
        with tl.replay_multinomial([case["draw"]], []):
            y2, lp2 = random_walk_advance(lp_t, lp_prev, y_prev, lens)
        again_same = bool(torch.equal(y2, y) and tl.same_tensor(lp2, lp))
        returned_kept = all(tl.same_tensor(t, c) for t, c in kept)
        same = torch.equal(saved[0], lp_t) and torch.equal(saved[1], lp_prev) and torch.equal(saved[2], y_prev) \
            and (lens is None or torch.equal(saved[3], lens))
        return {"y_shape": list(y.shape), "y": y.tolist(), "lp": [tl.fs(x) for x in lp.tolist()],
                "lp_shape": list(lp.shape), "draws": len(log), "inputs_same": bool(same),
                "dtypes": [tl.dtype_name(lp)],
                "again_same": again_same, "returned_kept": returned_kept}

    def req_advance(self, case):
        if case.get("bad"):
            return None
        return {"op": "c07.advance", "case": {k: case[k] for k in ("lp_t", "lp_prev", "y_prev", "lens", "draw")}}

    # ---- ctor
    def impl_ctor(self, case):
        from pydrobert.torch.modules import RandomWalk
        from pydrobert.torch.distributions import SequentialLanguageModelDistribution
        V, what = case["V"], case["what"]
        lm = tl.make_lm(V, [{}], [frac_str(Fraction(0))] * V, None)
        if what == "walk_eos_range":
            RandomWalk(lm, case["eos"])
        elif what == "walk_no_limit":
            RandomWalk(lm, None)(dict(), 1, None)
        elif what == "walk_negative_limit":
            RandomWalk(lm, case["eos"])(dict(), 1, case["max_iters"])
        elif what == "dist_no_limit":
            SequentialLanguageModelDistribution(RandomWalk(lm, None), None, None, None)
        elif what == "dist_no_enumeration":
            d = SequentialLanguageModelDistribution(RandomWalk(lm, case["eos"]), None, None, None)
            if d.has_enumerate_support:
                return {"has_enumerate_support": True}
            d.enumerate_support()
        elif what == "dist_batch_size":
            SequentialLanguageModelDistribution(RandomWalk(lm, None), case["N"], None, 2)
        elif what == "constraint_no_limit":
            from pydrobert.torch._decoding import TokenSequenceConstraint
            TokenSequenceConstraint(V, None, None)
        return {"accepted": True}

    def req_ctor(self, case):
        return None

    # ---- dist
    def impl_dist(self, case):
        import torch
        from pydrobert.torch.modules import RandomWalk
        from pydrobert.torch.distributions import SequentialLanguageModelDistribution
        V, N, T = case["V"], case["N"], case["max_iters"]
        eos = norm_eos(case)
        va = case.get("validate_args", True)
        tabs = [{k: probs_to_logits([r])[0] for k, r in tab.items()} for tab in case["tables"]]
        dflt = probs_to_logits([case["default"]])[0]
        lm = tl.make_lm(V, tabs, dflt, eos, shared=N is None, mutate=case.get("lm_mut"),
                        default_junk=case.get("default_junk"))
        walk = RandomWalk(lm, case["eos"])
        init = init_state(case)
        snap = tl.state_snapshot(init or {})
        dist = SequentialLanguageModelDistribution(walk, N, init, T, validate_args=va,
                                                   cache_samples=bool(case.get("cache")))
        supp = dist.enumerate_support()
        obs = {"support_shape": list(supp.shape), "has_enumerate_support": bool(dist.has_enumerate_support)}
        rows = supp if N is None else supp[:, 0]
        obs["support"] = rows.tolist()
        obs["expand_ok"] = True if N is None else bool((supp == supp[:, :1]).all())
        ne = dist.enumerate_support(expand=False)
        obs["noexpand_shape"] = list(ne.shape)
        obs["noexpand_same"] = bool(torch.equal(ne.reshape(ne.size(0), -1), rows))
        try:
            lps = dist.log_prob(supp)
            obs["support_lp_shape"] = list(lps.shape)
            obs["support_lp"] = [[tl.fs(x) for x in r] for r in lps.view(lps.size(0), -1).t().tolist()]
            obs["logsumexp"] = [float(x) for x in lps.logsumexp(0).view(-1).tolist()]
            # the same rows handed over as floating-point tensors (what an estimator passes on)
            for nm, dt in (("f32", torch.float32), ("f64", torch.float64)):
                try:
                    obs["support_lp_" + nm] = bool(torch.equal(dist.log_prob(supp.to(dt)), lps))
                except Exception as ex:
                    obs["support_lp_" + nm] = {"error": type(ex).__name__, "message": str(ex)[:160]}
        except Exception as ex:
            obs["support_lp"] = {"error": type(ex).__name__, "message": str(ex)[:160]}
        frac = supp[:1].to(torch.float32) + 0.5
        obs["check_fractional"] = bool(dist.support.check(frac).any())
        valid, check, value_lp = [], [], []
        supp0 = supp.clone()
        obs["values_modified"] = []
        for v in case["values"]:
            val = torch.tensor(v, dtype=torch.long)
            val = val.view(1, -1) if N is None else val.view(1, 1, -1).expand(1, N, -1)
            val0 = val.clone()
            try:
                check.append(bool(dist.support.check(val).all()))
            except Exception as ex:
                check.append(type(ex).__name__)
            try:
                # the score of batch element 0 (tokens after the first eos may be anything)
                lp_ = dist.log_prob(val)
                if list(lp_.shape) != list(val.shape[:-1]):
                    obs.setdefault("value_lp_shapes", []).append([v, list(lp_.shape)])
                value_lp.append(tl.fs(lp_.reshape(-1)[0]))
                valid.append(True)
            except ValueError:
                valid.append(False)
                value_lp.append(None)
            except Exception as ex:
                valid.append(type(ex).__name__)
                value_lp.append(None)
            if not torch.equal(val, val0):
                obs["values_modified"].append(v)
        obs["valid"] = valid
        obs["value_lp"] = value_lp
        obs["check"] = check
        # the support scored once more after all those calls on the same object
        if isinstance(obs["support_lp"], list):
            obs["support_lp_again"] = attempt(lambda: bool(tl.same_tensor(dist.log_prob(supp), lps)))

            def edited_scores():
                # the scores a call returned (computed, then answered from the cache when there is
                # one) are edited in place by the caller before the next call
                lps0 = lps.clone()
                dist.clear_cache()
                for _ in range(2):
                    a = dist.log_prob(supp)
                    if not tl.same_tensor(a, lps0):
                        return False
                    tl.scribble(a, ret_kind(case))
                return bool(tl.same_tensor(dist.log_prob(supp), lps0))
            obs["support_lp_after_edits"] = attempt(edited_scores)
        if not torch.equal(supp, supp0):
            obs["values_modified"].append("enumerate_support()")
        # the support asked for again and again, the caller editing every answer in place
        obs["support_calls"], obs["support_kept"] = self.support_rounds(dist, case, N is not None)
        obs["lm_rows_modified"] = lm.rows_modified()
        obs["init_changes"] = tl.state_changes(dist.initial_state, snap) + (
            [] if init is None else tl.state_changes(init, snap))
        return obs

    def req_dist(self, case):
        V, N, T = case["V"], case["N"], case["max_iters"]
        eos = norm_eos(case)
        values = [{"n": 0, "seq": v} for v in case["values"]]
        supp = C07.py_support(V, T, eos)
        for n in range(N or 1):
            values += [{"n": n, "seq": s} for s in supp]
        tabs = tables_for(case, N or 1)
        return {"op": "c07.dist", "case": {
            "V": V, "N": N or 1, "eos": eos, "max_iters": T,
            "lm": tables_json(tabs, False, from_probs=True),
            "lm_default": tl.lsm_rows(probs_to_logits([case["default"]]), False)[0],
            "plm": [[{"h": [int(x) for x in k.split(",")] if k else [], "row": r}
                     for k, r in tab.items()] for tab in tabs],
            "plm_default": case["default"], "pinned": False, "values": values,
            "validate_args": case.get("validate_args", True)}}

    @staticmethod
    def support_rounds(dist, case, batched):
        """enumerate_support(expand=e) for every e of the case's call list on ONE distribution; each
        result is recorded, then edited in place by the caller (who owns it). -> per call its shape,
        the rows of batch element 0 and whether all batch elements list the same rows; and whether
        every tensor handed out still holds what the caller wrote once all calls are made"""
        import torch
        calls, kept = [], []
        for expand in support_calls(case):
            t = dist.enumerate_support(expand=expand)
            r = t.reshape(t.size(0), -1, t.size(-1)) if batched else t.unsqueeze(1)
            calls.append({"expand": expand, "shape": list(t.shape), "rows": r[:, 0].tolist(),
                          "elements_same": bool((r == r[:, :1]).all())})
            kept.append((t, tl.scribble(t, ret_kind(case), case["V"])))
        return calls, all(torch.equal(t, c) for t, c in kept)

    def pred_support_rounds(self, case, impl, spec_support, first_rows):
        fails = []
        N, T = case["N"], case["max_iters"]
        seq = ", then ".join(f"enumerate_support(expand={e})" for e in support_calls(case))
        for i, c in enumerate(impl.get("support_calls") or []):
            exp_shape = [len(spec_support)] + ([] if N is None else [N if c["expand"] else 1]) + [T]
            bad = []
            if c["shape"] != exp_shape:
                bad.append(f"has shape {c['shape']}, expected {exp_shape}")
            if c["rows"] != first_rows:
                bad.append(f"lists {c['rows']}, the first call on the object listed {first_rows}")
            elif not c["elements_same"]:
                bad.append("lists other rows for another batch element")
            if sorted(c["rows"]) != spec_support or len(set(map(tuple, c["rows"]))) != len(c["rows"]):
                bad.append(f"is not the set of eos-truncated sequences {spec_support} without repetition")
            if bad:
                fails.append((f"call {i} of [{seq}] on one distribution, every returned tensor edited in place by "
                              f"the caller ({ret_kind(case)}) before the next call: " + "; ".join(bad), None))
                break
        if impl.get("support_kept", True) is not True:
            fails.append((f"[{seq}]: a tensor an earlier call returned (edited by the caller) changed during a "
                          f"later call", None))
        return fails

    @staticmethod
    def py_support(V, T, eos):
        """independent enumeration (python): eos-filled rows, sorted, distinct"""
        out = set()
        for s in itertools.product(range(V), repeat=T):
            s = list(s)
            if eos is not None and eos in s:
                i = s.index(eos)
                s = s[: i + 1] + [eos] * (T - i - 1)
            out.add(tuple(s))
        return [list(s) for s in sorted(out)]

    # ---- sample
    @staticmethod
    def script_of(case):
        """the calls made on the distribution object (cases of the corpus written before the scripts
        existed: the fixed sequence sample / hit / rotated / again / part / clear / again)"""
        if case.get("script") is not None:
            return case["script"]
        shape, M = case["shape"], prodl(case["shape"])
        ops = [{"op": "sample", "ref": 0}, {"op": "lp", "ref": 0, "id": 0}]
        if M:
            ops += [{"op": "new", "ref": 1, "draws": [(i - 1) % M for i in range(M)], "sshape": list(shape)},
                    {"op": "lp", "ref": 1, "id": 1}, {"op": "lp", "ref": 0, "id": 2}]
            if M >= 2:
                ops += [{"op": "new", "ref": 2, "draws": list(range(1, M)), "sshape": [M - 1]},
                        {"op": "lp", "ref": 2, "id": 3}]
            ops += [{"op": "clear"}, {"op": "lp", "ref": 0, "id": 4}]
        return ops

    @staticmethod
    def row_idx(op, N):
        """rows of the flattened first sample (row = draw * n + batch element) a tensor holds"""
        n = N or 1
        return [d * n + ((n - 1 - b) if op.get("swap") else b) for d in op["draws"] for b in range(n)]

    def impl_sample(self, case):
        import torch
        from pydrobert.torch.modules import RandomWalk
        from pydrobert.torch.distributions import SequentialLanguageModelDistribution
        V, N, T = case["V"], case["N"], case["max_iters"]
        M = prodl(case["shape"])
        batch = [] if N is None else [N]
        lm = self.walk_lm(case, shared=N is None)
        walk = RandomWalk(lm, case["eos"])
        va = case.get("validate_args", True)
        obs = {}
        ctx = tl.identity_log_softmax() if case["exact"] else _null()
        script = self.script_of(case)

        def content(op, rows, S):
            if not op["draws"]:
                return torch.empty(op["sshape"] + batch + [S], dtype=torch.long)
            t = rows[torch.tensor(self.row_idx(op, N))]
            return t.reshape(op["sshape"] + batch + [S])

        with ctx:
            obs["init_changes"] = []
            for cache in (True, False):
                init = init_state(case)
                snap = tl.state_snapshot(init or {})
                dist = SequentialLanguageModelDistribution(walk, N, init, T,
                                                           cache_samples=cache, validate_args=va)
                key = "cached" if cache else "fresh"
                tensors, outs, calls, rows, S = {}, {}, [], None, None
                resampled = []
                for op in script:
                    kind = op["op"]
                    if kind == "sample":
                        log = []
                        # a batched walk stops early when all its paths ended: hand each walk its own draws
                        with _walk_replay(case, log):
                            s = dist.sample(torch.Size(case["shape"]))
                        if rows is None:
                            obs["shape"] = list(s.shape)
                            obs["rows"] = s.reshape(-1, s.size(-1)).tolist() if M else []
                            obs[key + "_draws"] = len(log)
                            S = s.size(-1)
                            rows = s.reshape(-1, S).clone()
                        else:
                            resampled.append(list(s.shape) == obs["shape"]
                                             and s.reshape(-1, s.size(-1)).tolist() == obs["rows"])
                        tensors[op["ref"]] = s
                    elif kind == "new":
                        t = content(op, rows, S)
                        if op.get("pad") and T is not None and norm_eos(case) is not None and S < T:
                            t = torch.nn.functional.pad(t, (0, T - S), value=norm_eos(case))
                        if op.get("dtype"):
                            t = t.to({"f32": torch.float32, "f64": torch.float64, "i32": torch.int32}[op["dtype"]])
                        if op.get("lay") and t.numel():
                            t = tl.relayout(t, op["lay"])
                        tensors[op["ref"]] = t
                    elif kind == "set":
                        # the caller edits a tensor it holds in place
                        t = content(op, rows, S)
                        if op.get("pad") and T is not None and norm_eos(case) is not None and S < T:
                            t = torch.nn.functional.pad(t, (0, T - S), value=norm_eos(case))
                        tensors[op["ref"]].copy_(t)
                    elif kind == "clear":
                        dist.clear_cache()
                    elif kind == "edit":
                        if op["id"] in outs:
                            outs[op["id"]].sub_(1)
                    else:
                        v0 = tensors[op["ref"]].clone()
                        try:
                            lp = dist.log_prob(tensors[op["ref"]])
                            outs[op["id"]] = lp
                            calls.append({"shape": list(lp.shape), "data": [tl.fs(x) for x in lp.reshape(-1).tolist()]})
                        except Exception as ex:
                            calls.append({"error": type(ex).__name__, "message": str(ex)[:160]})
                        if not torch.equal(v0, tensors[op["ref"]]):
                            obs.setdefault("values_modified", []).append(op["id"])
                obs[key] = calls
                obs[key + "_resampled_same"] = all(resampled)
                obs["init_changes"] += tl.state_changes(dist.initial_state, snap) + (
                    [] if init is None else tl.state_changes(init, snap))
                if T is not None:
                    # (on both objects, after everything else that happened to them)
                    supp = dist.enumerate_support()
                    obs["support"] = (supp if N is None else supp[:, 0]).tolist()
                    obs["support_calls"], kept = self.support_rounds(dist, case, N is not None)
                    obs["support_kept"] = bool(obs.get("support_kept", True) and kept
                                               and obs["support"] == (supp if N is None else supp[:, 0]).tolist())
                    obs.setdefault("support_calls_all", []).extend(obs["support_calls"])
            obs["support_calls"] = obs.pop("support_calls_all", [])
            obs["lm_rows_modified"] = lm.rows_modified()
        return obs

    def req_sample(self, case):
        N = case["N"]
        M = prodl(case["shape"])
        script = self.script_of(case)
        # without a batch shape every row of a value is its own batch element of the language model
        most = max([M] + [len(op["draws"]) for op in script if op["op"] in ("new", "set")])
        tabs = tables_for(case, most if N is None else N)
        ids = [op["id"] for op in script if op["op"] == "lp"]
        trace = []
        for op in script:
            if op["op"] in ("new", "set"):
                trace.append({"op": op["op"], "ref": op["ref"], "idx": self.row_idx(op, N), "sshape": op["sshape"],
                              "pad": bool(op.get("pad"))})
            elif op["op"] == "edit":
                if op["id"] in ids:
                    trace.append({"op": "edit", "call": ids.index(op["id"])})
            elif op["op"] == "lp":
                trace.append({"op": "lp", "ref": op["ref"]})
            else:
                trace.append(dict(op))
        return {"op": "c07.sample", "case": {
            "V": case["V"], "N": N, "M": M, "sample_shape": case["shape"], "eos": norm_eos(case),
            "max_iters": case["max_iters"],
            "lm": tables_json(tabs, case["exact"], dtype=case.get("dtype")),
            "lm_default": tl.lsm_rows([case["default"]], case["exact"], case.get("dtype"))[0],
            "draws": case["draws"], "validate_args": case.get("validate_args", True),
            "trace": trace}}

    # ---- greedy
    def greedy_frames(self, case):
        """the (N, T, V) scores, garbage included"""
        import torch
        V, T = case["V"], case["T"]
        N = len(case["frames"])
        x = tl.from_fracs(case["frames"], case.get("dtype")).view(N, T, V)
        if case.get("junk") and x.numel():
            # ignored: the frames beyond the element's length; elsewhere a class that is not a
            # maximum of its frame may become -inf (probability 0 with is_probs)
            ign = torch.zeros(N, T, dtype=torch.bool) if case["lens"] is None else \
                torch.arange(T).unsqueeze(0) >= torch.tensor(case["lens"]).unsqueeze(1)
            allowed = x < x.max(-1, keepdim=True).values
            x = tl.put_junk(x, ign, case["junk"], allowed,
                            ninf=0.0 if case["stream"] == "probs" else float("-inf"))
        return x

    def greedy_tensors(self, case):
        import torch
        V, T = case["V"], case["T"]
        N = len(case["frames"])
        x = self.greedy_frames(case)
        if not case["batch_first"]:
            x = x.transpose(0, 1).contiguous()
        x = tl.relayout(x, case.get("lay_logits"))
        lens = None if case["lens"] is None else tl.relayout(torch.tensor(case["lens"]), case.get("lay_lens"))
        return x, lens

    def impl_greedy(self, case):
        import torch
        from pydrobert.torch.functional import ctc_greedy_search
        from pydrobert.torch.modules import CTCGreedySearch
        N = len(case["frames"])
        x, lens = self.greedy_tensors(case)
        x0 = x.clone()
        l0 = None if lens is None else lens.clone()
        is_probs = case["stream"] == "probs"
        ctx = tl.identity_log_softmax() if case["stream"] == "logp" else _null()
        with ctx:
            om = bool(case.get("omit"))
            mx, paths, out_lens = tl.call(ctc_greedy_search, "ctc_greedy_search", (x,),
                                          (lens, case["blank"], case["batch_first"], is_probs), om)
            mod = tl.call(CTCGreedySearch, "CTCGreedySearch", (), (case["blank"], case["batch_first"], is_probs), om)
            mx2, paths2, out_lens2 = mod(x, lens) if not (om and lens is None) else mod(x)
            # the module's answers are edited in place by the caller, then the module is asked again
            first = [t.clone() for t in (mx2, paths2, out_lens2)]
            kept = [(t, tl.scribble(t, ret_kind(case), case["V"])) for t in (mx2, paths2, out_lens2)]
            third = mod(x, lens)
            n_ = len(case["frames"])
            pv = (lambda p: p) if case["batch_first"] else (lambda p: p.t())
            again_same = bool(tl.same_tensor(third[0], first[0]) and torch.equal(third[2], first[2]) and all(
                torch.equal(pv(third[1])[n, : int(first[2][n])], pv(first[1])[n, : int(first[2][n])])
                for n in range(n_)))
            returned_kept = all(tl.same_tensor(t, c) for t, c in kept)
            mx2, paths2, out_lens2 = first
        pshape = list(paths.shape)
        if not case["batch_first"]:
            paths, paths2 = paths.t(), paths2.t()
        ol = out_lens.tolist()
        return {"score": [tl.fs(v) for v in mx.tolist()], "out_lens": ol, "paths_shape": pshape,
                "dtypes": [tl.dtype_name(mx), tl.dtype_name(mx2)],
                "paths": [paths[n, : ol[n]].tolist() for n in range(N)],
                "module_same": bool(tl.same_tensor(mx, mx2) and torch.equal(out_lens, out_lens2)
                                    and all(torch.equal(paths[n, : ol[n]], paths2[n, : ol[n]]) for n in range(N))),
                "again_same": again_same, "returned_kept": returned_kept,
                "inputs_same": bool(tl.same_tensor(x0, x) and (lens is None or torch.equal(l0, lens)))}

    def req_greedy(self, case):
        import torch
        V, T = case["V"], case["T"]
        N = len(case["frames"])
        x = self.greedy_frames(case)
        if case["stream"] == "tol":
            x = x.log_softmax(2)
        x = tl.finite_fill(x)
        return {"op": "c07.greedy", "case": {
            "V": V, "frames": tl.tensor_fracs(x) if T else [[] for _ in range(N)],
            "lens": case["lens"], "blank": case["blank"], "is_probs": case["stream"] == "probs"}}

    # ------------------------------------------------------------------ comparison
    def compare(self, case, impl, model):
        return getattr(self, "cmp_" + case["kind"])(case, impl, model)

    def predicate(self, case, impl, model):
        return getattr(self, "pred_" + case["kind"])(case, impl, model)

    @staticmethod
    def err(impl):
        return isinstance(impl, dict) and "error" in impl

    @staticmethod
    def pred_returned(case, impl, what):
        """the tensors a call returned are the caller's: edited in place, the next call on the same
        object / with the same arguments answers as the first one did, and leaves them alone"""
        fails = []
        if impl.get("again_same", True) is not True:
            fails.append((f"{what} called again after the caller edited the returned tensors in place "
                          f"({ret_kind(case)}): the answer differs from the first one", None))
        if impl.get("returned_kept", True) is not True:
            fails.append((f"{what}: a tensor the first call returned (edited by the caller) changed during the "
                          f"second call", None))
        return fails

    @staticmethod
    def pred_dtypes(case, impl, what):
        """scores come back in the dtype the scores went in with (float64 is not silently narrowed)"""
        exp = case.get("dtype") or "f32"
        bad = [d for d in impl.get("dtypes", []) if d != exp]
        return [(f"{what}: scores of dtype {exp} went in, dtype {'/'.join(bad)} came back", None)] if bad else []

    @staticmethod
    def call_note(case, name, opt):
        if not case.get("omit"):
            return ""
        return f" [called with the default-valued arguments {tl.omitted(name, opt)} left out]"

    # ---- seq
    def cmp_seq(self, case, impl, model):
        m = model["model"]
        if m is not None and model["spec"] and m != model["spec"]:
            raise RuntimeError(f"internal: model {m} != spec {model['spec']} (C07_seq)")
        if m is None:
            return [] if self.err(impl) else ["model: dimension / empty class dimension error, "
                                              "implementation returned a value"]
        if self.err(impl):
            return [f"implementation raised {impl['error']}: {impl.get('message')}"]
        if not all_close(impl["out"], m, case["exact"], case.get("dtype")):
            return [f"impl={impl['out']} model={m}"]
        return []

    def pred_seq(self, case, impl, model):
        nd = len(case["shape"])
        if not (-nd <= case["dim"] < nd):
            if not self.err(impl):
                return [("dim out of range accepted", None)]
            return [] if impl["error"] in ("RuntimeError", "IndexError") else [
                (f"dim out of range raised {impl['error']}", None)]
        if case["V"] == 0 and prodl(case["shape"]) > 0:
            # no class to gather from: an error (the model says so too, C07_seq_dim)
            if not self.err(impl):
                return [("logits without classes (V=0) and a non-empty hyp accepted", None)]
            return [] if impl["error"] in ("RuntimeError", "IndexError") else [
                (f"V=0 raised {impl['error']}", None)]
        if self.err(impl):
            return [(f"sequence_log_probs raised {impl['error']}: {impl.get('message')}", None)]
        d = case["dim"] % nd
        fails = []
        exp_shape = case["shape"][:d] + case["shape"][d + 1:]
        if impl["shape"] != exp_shape:
            fails.append((f"result shape {impl['shape']} != {exp_shape}", None))
        if not all_close(impl["out"], model["spec"], case["exact"], case.get("dtype")):
            fails.append((f"score {impl['out']} differs from sum over tokens up to the first eos "
                          f"{model['spec']}", None))
        if not impl["module_same"]:
            fails.append(("SequenceLogProbabilities differs from the functional", None))
        if not impl.get("inputs_same", True):
            fails.append(("sequence_log_probs modified its input tensors", None))
        fails += self.pred_dtypes(case, impl, "sequence_log_probs / SequenceLogProbabilities")
        fails += self.pred_returned(case, impl, "sequence_log_probs / the SequenceLogProbabilities object")
        note = self.call_note(case, "sequence_log_probs", (case["dim"], case["eos"]))
        fails = [(w + note, sg) for w, sg in fails]
        return fails

    # ---- packed
    def cmp_packed(self, case, impl, model):
        m = model["model"]
        if case["dim"] < 0:
            return []  # the model covers dim in {0, 1}; negative dims are judged by the predicate
        if m is None:
            return [] if self.err(impl) else ["model: pack error, implementation returned a value"]
        if self.err(impl):
            return [f"implementation raised {impl['error']}: {impl.get('message')}"]
        return [] if all_close(impl["out"], m, case["exact"], case.get("dtype")) else [f"impl={impl['out']} model={m}"]

    def pred_packed(self, case, impl, model):
        T = len(case["hyp"][0])
        if T < max(case["lens"]):
            return [] if self.err(impl) else [("hyp shorter than the packed sequences accepted", None)]
        rows, bad = case.get("hyp_rows", 0), case.get("bad_index")
        if bad or rows:
            # a hyp / index tensor that does not fit the packed batch: an error, except that with
            # sorted_indices index_select picks the packed batch's sequences out of a larger hyp
            what = f"index tensor {bad} pointing outside the batch" if bad else \
                f"hyp with {len(case['lens']) + rows} sequences for a packed batch of {len(case['lens'])}"
            if rows > 0 and not case["enforce_sorted"]:
                if self.err(impl):
                    return [(f"{what}: raised {impl['error']}", None)]
                return [] if all_close(impl["out"], model["spec"], case["exact"], case.get("dtype")) else [
                    (f"{what}: {impl['out']} differs from per-sequence sums {model['spec']}", None)]
            if self.err(impl) and impl["error"] in ("RuntimeError", "IndexError"):
                return []
            return [(f"{what}: expected RuntimeError/IndexError, got {impl}", None)]
        if self.err(impl):
            sig = None
            if case["dim"] < 0 and impl["error"] == "IndexError":
                sig = "C07.packed.negative_dim"
            return [(f"packed sequence_log_probs raised {impl['error']} (dim={case['dim']}): "
                     f"{impl.get('message')}", sig)]
        fails = []
        if not all(model["flags"].values()):
            raise RuntimeError(f"internal: hypotheses of C07_packed / C07_packed_seq do not hold on a "
                               f"PackedSequence built by torch: {model['flags']}")
        if not all_close(impl["out"], model["spec"], case["exact"], case.get("dtype")):
            fails.append((f"packed score {impl['out']} differs from per-sequence sums {model['spec']}", None))
        if isinstance(impl["padded"], dict):
            fails.append((f"the same sequences as a padded tensor (positions beyond the lengths set to -1): "
                          f"sequence_log_probs raised {impl['padded']}; packed gave {impl['out']}", None))
        elif impl["padded"] is not None and not all_close(impl["out"], impl["padded"], case["exact"], case.get("dtype")):
            fails.append((f"packed {impl['out']} != padded {impl['padded']}", None))
        if not impl.get("inputs_same", True):
            fails.append(("packed sequence_log_probs modified its input tensors", None))
        fails += self.pred_dtypes(case, impl, "sequence_log_probs (packed, and the same sequences padded)")
        fails += self.pred_returned(case, impl, "packed sequence_log_probs")
        note = self.call_note(case, "sequence_log_probs", (case["dim"], case.get("eos_arg")))
        fails = [(w + note, sg) for w, sg in fails]
        return fails

    # ---- walk
    def cmp_walk(self, case, impl, model):
        if not all(model["flags"].values()):
            raise RuntimeError(f"internal: the draw hypotheses of C07_walk do not hold on a generated "
                               f"case: {model['flags']}")
        if model["model"]["lp"] != model["spec"]["chained"] or model["model"]["rescored"] != model["spec"]["chained"]:
            raise RuntimeError(f"internal: walk model {model['model']} != spec {model['spec']} (C07_walk)")
        if self.err(impl):
            return [f"implementation raised {impl['error']}: {impl.get('message')}"]
        m = model["model"]
        out = []
        N = case["N"]
        if impl["rows"] != m["rows"]:
            out.append(f"rows of y impl={impl['rows']} model={m['rows']}")
        if impl["lens"] != m["lens"]:
            out.append(f"lens impl={impl['lens']} model={m['lens']}")
        my = [m["y"][n][: m["lens"][n]] for n in range(N)]
        if impl["y"] != my:
            out.append(f"y impl={impl['y']} model={my}")
        if not all_close(impl["lp"], m["lp"], case["exact"], case.get("dtype")):
            out.append(f"log_probs impl={impl['lp']} model={m['lp']}")
        if isinstance(impl.get("seq_lp"), list) and not all_close(impl["seq_lp"], m["rescored"], case["exact"], case.get("dtype")):
            out.append(f"sequence_log_probs of the LM outputs impl={impl['seq_lp']} model={m['rescored']}")
        return out

    def pred_walk(self, case, impl, model):
        if self.err(impl):
            return [(f"random walk raised {impl['error']}: {impl.get('message')}", None)]
        s = model["spec"]
        N, T, V = case["N"], case["max_iters"], case["V"]
        e = norm_eos(case)
        fails = []
        if impl["walk_eos"] != e:
            fails.append((f"RandomWalk.eos {impl['walk_eos']} for eos index {case['eos']}, V={V}", None))
        exp_shapes = [[s["steps"], N], [N], [N]] if case["batched"] else [[s["steps"]], [], []]
        if impl["shapes"] != exp_shapes:
            fails.append((f"shapes {impl['shapes']} != {exp_shapes}", None))
        if impl["steps"] != s["steps"]:
            fails.append((f"{impl['steps']} draws taken, expected {s['steps']}", None))
        for n in range(N):
            path = s["paths"][n]
            if impl["y"][n] != path:
                fails.append((f"path {n}: {impl['y'][n]} (len {impl['lens'][n]}) is not the drawn tokens up "
                              f"to the first eos / step limit {path}", None))
                continue
            ends_ok = (e is not None and path and path[-1] == e and e not in path[:-1]) or \
                      (T is not None and len(path) == T and (e is None or e not in path))
            if not ends_ok:
                fails.append((f"path {n} does not end at its first eos or the step limit", None))
        if not all_close(impl["lp"], s["chained"], case["exact"], case.get("dtype")):
            fails.append((f"reported log-probabilities {impl['lp']} != chained {s['chained']}", None))
        if "seq_lp" in impl and not all_close(impl["seq_lp"], s["chained"], case["exact"], case.get("dtype")):
            fails.append((f"sequence_log_probs on the LM's outputs {impl['seq_lp']} != chained "
                          f"{s['chained']}", None))
        if "dist_lp" in impl:
            if isinstance(impl["dist_lp"], dict):
                sig = None
                if impl["dist_lp"]["error"] == "ValueError" and T is not None and 1 < impl["rows"] < T \
                        and "cannot broadcast" in impl["dist_lp"].get("message", ""):
                    sig = "C07.validate_sample.intermediate_length"
                fails.append((f"log_prob of the walk's own output raised {impl['dist_lp']}", sig))
            elif not all_close(impl["dist_lp"], s["chained"], case["exact"], case.get("dtype")):
                fails.append((f"wrapper log_prob {impl['dist_lp']} != chained {s['chained']}", None))
        if impl.get("steps"):
            # (a walk of no step never asks the language model: its zero scores have the default dtype)
            fails += self.pred_dtypes(case, impl, "RandomWalk (log_probs of a language model of that dtype)")
        fails += self.pred_repeated(case, impl, s)
        return fails

    def pred_repeated(self, case, impl, s):
        """further calls on the same walk / distribution object answer as the first ones, and the
        initial state the caller handed over is left alone"""
        fails = []
        lm_note = (f"(language model: dictionary handling {case.get('lm_mut') or 'new dictionaries'}, rows for "
                   f"ended paths {case.get('default_junk') or 'finite'})")
        if impl.get("walk_again_same", True) is not True:
            fails.append((f"the same RandomWalk called a second time with the same draws, after the caller "
                          f"edited the first call's y, lens and log-probabilities in place ({ret_kind(case)}): "
                          f"{impl['walk_again_same']} (True = same result) {lm_note}", None))
        for key, what in (("dist_lp_again", "a second log_prob of the walk's output on the same distribution"),
                          ("dist_sample_lp", "log_prob of a sample drawn after log_prob on the same distribution"),
                          ("dist_sample_again_lp", f"log_prob of a sample drawn after the caller edited the previous "
                                                   f"sample in place ({ret_kind(case)})")):
            if key not in impl:
                continue
            if isinstance(impl[key], dict):
                fails.append((f"{what} raised {impl[key]} {lm_note}", None))
            elif not all_close(impl[key], s["chained"], case["exact"], case.get("dtype")):
                fails.append((f"{what}: {impl[key]} != chained {s['chained']} {lm_note}", None))
        if any(sh != [1, case["N"]] for sh in impl.get("dist_lp_shapes", [])):
            fails.append((f"log_prob of the walk's output as a (1, N, S) value (cache_samples="
                          f"{bool(case.get('cache'))}; first call, second call, after a sample): shapes "
                          f"{impl['dist_lp_shapes']}, expected [1, {case['N']}] each", None))
        for key, when in (("dist_sample", "after log_prob on the same distribution"),
                          ("dist_sample_again", f"after the caller edited the previous sample in place "
                                                f"({ret_kind(case)}), same distribution")):
            if key not in impl:
                continue
            e = norm_eos(case)
            want = [p + [e] * (s["steps"] - len(p)) for p in s["paths"]]
            if isinstance(impl[key], dict):
                fails.append((f"sample() {when} raised {impl[key]} {lm_note}", None))
            elif impl[key] != want:
                fails.append((f"sample() {when}, same draws: {impl[key]} "
                              f"!= the paths padded with eos {want} {lm_note}", None))
        if impl.get("sample_kept", True) is not True:
            fails.append(("the tensor an earlier sample() returned (edited by the caller) changed during a later "
                          "sample()/log_prob on the same distribution", None))
        if impl.get("value_same", True) is not True:
            fails.append(("log_prob modified the value it was handed", None))
        if impl.get("lm_rows_modified"):
            fails.append((f"{impl['lm_rows_modified']} of the score tensors the language model returned were "
                          f"modified in place by the walk / wrapper {lm_note}", None))
        if impl.get("init_changes"):
            fails.append((f"the initial_state of the distribution was modified: {impl['init_changes']} "
                          f"{lm_note}", None))
        return fails

    # ---- dist
    def cmp_dist(self, case, impl, model):
        if self.err(impl):
            return [f"implementation raised {impl['error']}: {impl.get('message')}"]
        m = model["model"]
        out = []
        if impl["support"] != m["support"]:
            out.append(f"support impl={impl['support']} model={m['support']}")
        nv = len(case["values"])
        if impl["valid"] is not None and impl["valid"] != m["valid"][:nv]:
            out.append(f"validation impl={impl['valid']} model={m['valid'][:nv]}")
        if impl["check"] != m["check"][:nv]:
            out.append(f"support.check impl={impl['check']} model={m['check'][:nv]}")
        for v, lp, mlp, chk in zip(case["values"], impl.get("value_lp") or [], m["log_probs"][:nv], m["check"]):
            # (a value outside the support is only scored with validate_args=False: unspecified)
            if chk and lp is not None and not close(lp, mlp, False):
                out.append(f"log_prob({v}) impl={lp} model={mlp}")
        if isinstance(impl["support_lp"], list) and impl["support"] == m["support"]:
            order = C07.py_support(case["V"], case["max_iters"], norm_eos(case))
            S = len(order)
            for n, row in enumerate(impl["support_lp"]):
                by_row = {tuple(r): m["log_probs"][nv + n * S + i] for i, r in enumerate(order)}
                mrow = [by_row[tuple(r)] for r in impl["support"]]
                if not all_close(row, mrow, False):
                    out.append(f"log_prob(support) element {n} impl={row} model={mrow}")
        return out

    def pred_dist(self, case, impl, model):
        if self.err(impl):
            return [(f"distribution raised {impl['error']}: {impl.get('message')}", None)]
        V, N, T = case["V"], case["N"], case["max_iters"]
        eos = norm_eos(case)
        s = model["spec"]
        fails = []
        if not impl["has_enumerate_support"]:
            fails.append(("has_enumerate_support is False although max_iters is set", None))
        exp_ne = [len(s["support"])] + ([] if N is None else [1]) + [T]
        if impl["noexpand_shape"] != exp_ne or not impl["noexpand_same"]:
            fails.append((f"enumerate_support(expand=False): shape {impl['noexpand_shape']} (expected {exp_ne}), "
                          f"same rows: {impl['noexpand_same']}", None))
        if sorted(impl["support"]) != s["support"]:
            fails.append((f"enumerate_support {impl['support']} is not the set of eos-truncated sequences "
                          f"{s['support']}", None))
        if len(set(map(tuple, impl["support"]))) != len(impl["support"]):
            fails.append(("enumerate_support lists a sequence twice", None))
        exp_shape = [len(s["support"])] + ([] if N is None else [N]) + [T]
        if impl["support_shape"] != exp_shape or not impl["expand_ok"]:
            fails.append((f"support shape {impl['support_shape']} != {exp_shape}", None))
        if impl.get("value_lp_shapes"):
            fails.append((f"log_prob of a (1, [N,] S) value does not have the shape (1, [N]): "
                          f"{impl['value_lp_shapes']} (cache_samples={bool(case.get('cache'))})", None))
        if isinstance(impl["support_lp"], dict):
            fails.append((f"log_prob(enumerate_support()) raised {impl['support_lp']}", None))
        else:
            if impl["support_lp_shape"] != exp_shape[:-1]:
                fails.append((f"log_prob(enumerate_support()) has shape {impl['support_lp_shape']}, expected "
                              f"{exp_shape[:-1]}", None))
            for x in impl["logsumexp"]:
                if abs(x) > 1e-4:
                    fails.append((f"probabilities over the support sum to exp({x})", None))
        for nm in ("f32", "f64"):
            if impl.get("support_lp_" + nm, True) is not True:
                fails.append((f"log_prob of the support rows given as {nm} tensor: {impl['support_lp_' + nm]} "
                              f"(True = same as for the integer tensor)", None))
        if impl.get("check_fractional"):
            fails.append(("support.check accepts a row of non-integer values", None))
        lm_note = (f"(language model: dictionary handling {case.get('lm_mut') or 'new dictionaries'}, rows for "
                   f"ended paths {case.get('default_junk') or 'finite'})")
        for v, lp, slp, chk in zip(case["values"], impl.get("value_lp") or [], s["log_probs"], model["model"]["check"]):
            if chk and lp is not None and not close(lp, slp, False):
                fails.append((f"log_prob({v}) = {lp} (eos={eos}), the sum over its tokens up to the first eos "
                              f"is {slp} {lm_note}", None))
        if impl.get("support_lp_again", True) is not True:
            fails.append((f"log_prob(enumerate_support()) once more on the same distribution: "
                          f"{impl['support_lp_again']} (True = same values) {lm_note}", None))
        if impl.get("support_lp_after_edits", True) is not True:
            fails.append((f"log_prob(enumerate_support()) three times on the same distribution (cache_samples="
                          f"{bool(case.get('cache'))}), the caller editing the returned scores in place "
                          f"({ret_kind(case)}) after each call: {impl['support_lp_after_edits']} (True = same "
                          f"values every time) {lm_note}", None))
        fails += self.pred_support_rounds(case, impl, s["support"], impl["support"])
        if impl.get("values_modified"):
            fails.append((f"log_prob / support.check modified the value it was handed: {impl['values_modified']}",
                          None))
        if impl.get("lm_rows_modified"):
            fails.append((f"{impl['lm_rows_modified']} of the score tensors the language model returned were "
                          f"modified in place by the wrapper {lm_note}", None))
        if impl.get("init_changes"):
            fails.append((f"the initial_state of the distribution was modified: {impl['init_changes']} "
                          f"{lm_note}", None))
        if s["mass"] is not None and any(Fraction(x) != 1 for x in s["mass"]):
            raise RuntimeError(f"internal: spec support mass {s['mass']} != 1")
        supp = set(map(tuple, s["support"]))
        valid = impl["valid"] if impl["valid"] is not None else [None] * len(case["values"])
        for v, ok, chk in zip(case["values"], valid, impl["check"]):
            w = list(v)
            if eos is not None and eos in w:
                w = w[: w.index(eos) + 1]
                w = w + [eos] * (T - len(w))
            member = 1 <= len(v) <= T and len(w) == T and tuple(w) in supp
            if chk is not member:
                fails.append((f"support.check({v}) = {chk} (max_iters={T}, eos={eos}), membership in the "
                              f"support is {member}", None))
            if ok is None:
                continue
            if ok is not True and ok is not False:
                fails.append((f"log_prob({v}) raised {ok}", None))
            elif case.get("validate_args", True) is False:
                if not ok:
                    fails.append((f"log_prob({v}) raised ValueError although validate_args=False", None))
            elif member and not ok:
                sig = "C07.validate_sample.intermediate_length" if 1 < len(v) < T else None
                fails.append((f"log_prob rejects {v} (max_iters={T}, eos={eos}) although it is in the support", sig))
            elif ok and not member:
                fails.append((f"log_prob accepts {v} (max_iters={T}, eos={eos}) which is outside the support", None))
        return fails

    # ---- sample
    ALIAS_SIG = "C07.log_prob.cache_aliases_caller_tensors"

    @staticmethod
    def call_same(a, b, exact):
        """two log_prob outcomes agree: the same error class, or the same shape and scores
        (`b` may be the model's: an error is then the bare class name)"""
        if isinstance(b, str):
            b = {"error": b}
        if "error" in a or "error" in b:
            return "error" in a and "error" in b and a["error"] == b["error"]
        return a["shape"] == b["shape"] and all_close(a["data"], b["data"], exact)

    @staticmethod
    def call_str(a):
        if isinstance(a, str):
            return "raises " + a
        if "error" in a:
            return f"raises {a['error']} ({a.get('message', '')})"
        return f"shape {a['shape']} scores {a['data']}"

    def describe_script(self, case, upto):
        """the calls up to log_prob call `upto`, readable"""
        out = []
        for op in self.script_of(case):
            k = op["op"]
            if k == "sample":
                out.append(f"t{op['ref']} = sample({case['shape']})")
            elif k in ("new", "set"):
                what = f"draws {op['draws']} as sample shape {op['sshape']}"
                extra = "".join(f", {f}={op[f]}" for f in ("dtype", "lay", "swap", "pad") if op.get(f))
                out.append(f"t{op['ref']} = tensor({what}{extra})" if k == "new" else
                           f"t{op['ref']}.copy_({what})  # in place")
            elif k == "clear":
                out.append("clear_cache()")
            elif k == "edit":
                out.append(f"out{op['id']} -= 1  # in place")
            else:
                out.append(f"out{op['id']} = log_prob(t{op['ref']})")
                if op["id"] == upto:
                    break
        return "; ".join(out)

    def cmp_sample(self, case, impl, model):
        if self.err(impl):
            return [f"implementation raised {impl['error']}: {impl.get('message')}"]
        m = model["model"]
        out = []
        if not model["flags"]["scored"]:
            raise RuntimeError("internal: the walks' scores (in the shape sample() caches them) differ from "
                               "log_prob of the sampled value (hypothesis of C07_log_prob_cache)")
        if not model["flags"]["draw_hyps"]:
            raise RuntimeError("internal: the draw hypotheses of C07_sample_in_support / "
                               "C07_sample_batched_in_support do not hold on a generated case")
        ref = model["spec"]["reference"]
        if m["repaired_cached"] != ref or m["repaired_fresh"] != ref or m["aliased_fresh"] != ref:
            raise RuntimeError("internal: the copying / never-caching state machine differs from the reference "
                               "(C07_log_prob_cache_calls)")
        if not self.in_place(case) and m["aliased_cached"] != ref:
            raise RuntimeError("internal: the aliasing state machine differs from the reference on a script "
                               "without in-place edits (C07_log_prob_cache_aliased_partial)")
        if impl["rows"] != m["rows"]:
            out.append(f"sample rows impl={impl['rows']} model={m['rows']}")
            return out
        n_calls = len([op for op in self.script_of(case) if op["op"] == "lp"])
        for pre in ("cached", "fresh"):
            if len(impl[pre]) != n_calls or len(ref) != n_calls:
                raise RuntimeError(f"internal: script of {n_calls} log_prob calls, impl answered "
                                   f"{len(impl[pre])}, model {len(ref)}")
        same = lambda xs, ys: all(self.call_same(x, y, case["exact"]) for x, y in zip(xs, ys))
        if not same(impl["fresh"], m["repaired_fresh"]):
            out.append(f"cache_samples=False: impl={impl['fresh']} model={m['repaired_fresh']}")
        # the caching object either aliases the caller's tensors (code as pinned) or caches copies
        if not same(impl["cached"], m["aliased_cached"]) and not same(impl["cached"], m["repaired_cached"]):
            out.append(f"cache_samples=True: impl={impl['cached']} model(aliasing cache)={m['aliased_cached']} "
                       f"model(copying cache)={m['repaired_cached']}")
        return out

    def in_place(self, case):
        return any(op["op"] in ("set", "edit") for op in self.script_of(case))

    def pred_sample(self, case, impl, model):
        if self.err(impl):
            return [(f"sample raised {impl['error']}: {impl.get('message')}", None)]
        V, N, T = case["V"], case["N"], case["max_iters"]
        eos = norm_eos(case)
        M = prodl(case["shape"])
        fails = []
        exp = case["shape"] + ([] if N is None else [N])
        script = self.script_of(case)
        if M == 0:
            # no draw at all: an empty tensor of sample + batch + event shape, scores of sample + batch shape
            full = exp + [1 if T is None else T]
            if impl["shape"] != full:
                fails.append((f"empty sample has shape {impl['shape']}, expected {full}", None))
            for key in ("cached", "fresh"):
                for v in impl[key]:
                    if "error" in v:
                        fails.append((f"log_prob of an empty sample raised {v}", None))
                    elif v["shape"] != exp or v["data"]:
                        fails.append((f"log_prob of an empty sample has shape {v['shape']}", None))
            return fails
        S = impl["shape"][-1]
        if impl["shape"][:-1] != exp or S < 1 or (T is not None and S > T):
            fails.append((f"sample shape {impl['shape']} for sample_shape {case['shape']}, batch {N}, "
                          f"max_iters {T}", None))
        # "its samples lie in that support": a sampled row, padded with eos to the step limit when
        # every walk of the call ended early, is literally a row of enumerate_support()
        spec_supp = None if T is None else set(map(tuple, C07.py_support(V, T, eos)))
        impl_supp = None if T is None else set(map(tuple, impl["support"]))
        for r in impl["rows"]:
            if T is None:
                i = r.index(eos) if eos in r else None
                if i is None or any(not (0 <= x < V) for x in r) or any(x != eos for x in r[i:]):
                    fails.append((f"sampled row {r} (eos={eos}, no step limit) is not an in-vocabulary "
                                  f"sequence ending in eos and padded with eos", None))
                continue
            if len(r) < T and (eos is None or eos not in r):
                fails.append((f"sampled row {r} has neither eos nor {T} tokens", None))
                continue
            w = tuple(r) + (eos,) * (T - len(r))
            if w not in impl_supp:
                fails.append((f"sampled row {r} (eos={eos}, max_iters={T}) is not a row of "
                              f"enumerate_support() {sorted(impl_supp)}", None))
            elif w not in spec_supp:
                fails.append((f"sampled row {r} is not in the support", None))
        if not all(model["spec"]["in_support"]):
            raise RuntimeError("internal: model sample outside the spec support")
        if impl.get("init_changes"):
            fails.append((f"the initial_state of the distribution was modified: {impl['init_changes']} "
                          f"(language model: dictionary handling {case.get('lm_mut') or 'new dictionaries'})", None))
        if T is not None:
            calls_ = support_calls(case)
            # (the rounds ran on the caching and on the never-caching object)
            for part in (impl.get("support_calls", [])[:len(calls_)], impl.get("support_calls", [])[len(calls_):]):
                fails += self.pred_support_rounds(case, dict(impl, support_calls=part),
                                                  C07.py_support(V, T, eos), impl["support"])
        if impl.get("values_modified"):
            fails.append((f"log_prob modified the value it was handed (calls {impl['values_modified']}); calls: "
                          f"{self.describe_script(case, max(impl['values_modified']))}", None))
        if impl.get("lm_rows_modified"):
            fails.append((f"{impl['lm_rows_modified']} of the score tensors the language model returned were "
                          f"modified in place by the walk / wrapper", None))
        for key in ("cached", "fresh"):
            if not impl[key + "_resampled_same"]:
                fails.append((f"cache_samples={key == 'cached'}: sample() with the same draws later on the same "
                              f"object returned other rows", None))
        same_rows = impl["rows"] == model["model"]["rows"]
        ref = model["spec"]["reference"]
        aliased = model["model"]["aliased_cached"]
        lps = [op for op in script if op["op"] == "lp"]
        tens, sshape_of = {}, {}
        # the value each call was handed: shape and (for the message) the rows
        value_of = {}
        for op in script:
            if op["op"] == "sample":
                tens[op["ref"]] = list(case["shape"])
            elif op["op"] == "new":
                tens[op["ref"]] = list(op["sshape"])
            elif op["op"] == "lp":
                value_of[op["id"]] = tens[op["ref"]] + ([] if N is None else [N])
                sshape_of[op["id"]] = tens[op["ref"]]
        what = {True: "cache_samples=True", False: "cache_samples=False"}
        edits = 0
        pos = {op["id"]: i for i, op in enumerate(lps)}
        for op in script:
            if op["op"] in ("set", "edit"):
                edits += 1
                continue
            if op["op"] != "lp":
                continue
            i = pos[op["id"]]
            exp_shape = value_of[op["id"]]
            for cache in (False, True):
                v = impl["cached" if cache else "fresh"][i]
                r = ref[i]
                if "error" in v:
                    sig = None
                    if isinstance(r, str) and r == v["error"] == "ValueError":
                        continue  # (not generated: every value of a script is in the support)
                    if v["error"] == "ValueError" and T is not None and 1 < S < T \
                            and "cannot broadcast" in v.get("message", ""):
                        sig = "C07.validate_sample.intermediate_length"
                    elif not sshape_of[op["id"]] and v["error"] in ("RuntimeError", "IndexError"):
                        sig = "C07.log_prob.sample_shape"
                    elif len(sshape_of[op["id"]]) > 1 and N is None and v["error"] == "RuntimeError":
                        sig = "C07.log_prob.sample_shape"
                    fails.append((f"{what[cache]}: log_prob call {op['id']} raised {v} (sample_shape="
                                  f"{case['shape']}, batch={N}, max_iters={T}, rows={impl['rows']}); calls: "
                                  f"{self.describe_script(case, op['id'])}", sig))
                    continue
                bad = []
                if v["shape"] != exp_shape:
                    bad.append(f"has shape {v['shape']}, the value's shape without the event dimension is "
                               f"{exp_shape}")
                if same_rows and isinstance(r, dict) and not all_close(v["data"], r["data"], case["exact"], case.get("dtype")):
                    bad.append(f"returned {v['data']}, the scores of the value's rows are {r['data']}")
                fresh = impl["fresh"][i]
                if cache and "error" not in fresh and not self.call_same(v, fresh, case["exact"]) and not bad:
                    bad.append(f"answers {self.call_str(v)}, the never-caching distribution {self.call_str(fresh)}")
                if not bad:
                    continue
                sig = None
                # the known defect: the cache shares storage with tensors the caller holds; exactly the
                # aliasing state machine's answer, after an in-place edit by the caller
                if cache and edits and self.call_same(v, aliased[i], case["exact"]) \
                        and not self.call_same(aliased[i], r, True):
                    sig = self.ALIAS_SIG
                fails.append((f"{what[cache]}: log_prob call {op['id']} " + " and ".join(bad) +
                              f" (sampled rows {impl['rows']}); calls: {self.describe_script(case, op['id'])}", sig))
        return fails

    # ---- advance
    def cmp_advance(self, case, impl, model):
        if self.err(impl):
            return [f"implementation raised {impl['error']}: {impl.get('message')}"]
        m = model["model"]
        out = []
        if impl["y"] != m["y"]:
            out.append(f"y_next impl={impl['y']} model={m['y']}")
        if not all_close(impl["lp"], m["lp"], True):
            out.append(f"log_probs_next impl={impl['lp']} model={m['lp']}")
        return out

    def pred_advance(self, case, impl, model):
        if case.get("bad"):
            if self.err(impl) and impl["error"] == "RuntimeError":
                return []
            return [(f"random_walk_advance with a malformed argument ({case['bad']}): expected RuntimeError, "
                     f"got {impl}", None)]
        if self.err(impl):
            return [(f"random_walk_advance raised {impl['error']}: {impl.get('message')}", None)]
        N, S = case["N"], case["S"]
        lens = case["lens"] if case["lens"] is not None else [S] * N
        fails = []
        grow = S == 0 or max(lens) >= S
        exp_shape = [S + 1 if grow else S, N]
        if impl["y_shape"] != exp_shape:
            fails.append((f"y_next has shape {impl['y_shape']}, expected {exp_shape} (prefix lengths {lens})", None))
        else:
            for n in range(N):
                col = [row[n] for row in impl["y"]]
                want = [case["y_prev"][t][n] for t in range(lens[n])] + [case["draw"][n]]
                if col[: lens[n] + 1] != want:
                    fails.append((f"path {n}: {col[: lens[n] + 1]} is not the prefix of length {lens[n]} "
                                  f"extended by the drawn token {want}", None))
        exp_lp = [frac_str(Fraction(case["lp_prev"][n]) + Fraction(case["lp_t"][n][case["draw"][n]]))
                  for n in range(N)]
        if impl["lp_shape"] != [N] or not all_close(impl["lp"], exp_lp, True):
            fails.append((f"log_probs_next {impl['lp']} != previous + log-probability of the drawn token {exp_lp}",
                          None))
        if impl["draws"] != 1:
            fails.append((f"{impl['draws']} draws taken in one step", None))
        if not impl["inputs_same"]:
            fails.append(("random_walk_advance modified its input tensors (or returned a tensor that shares "
                          "storage with one: the caller edited the results in place)", None))
        fails += self.pred_dtypes(case, impl, "random_walk_advance")
        fails += self.pred_returned(case, impl, "random_walk_advance (same prefix, same draw)")
        return fails

    # ---- ctor
    CTOR_ERR = {"walk_eos_range": "ValueError", "walk_no_limit": "RuntimeError",
                "walk_negative_limit": "RuntimeError", "dist_no_limit": "ValueError",
                "dist_no_enumeration": "NotImplementedError", "dist_batch_size": "ValueError",
                "constraint_no_limit": "ValueError"}

    def cmp_ctor(self, case, impl, model):
        return []

    def pred_ctor(self, case, impl, model):
        want = self.CTOR_ERR[case["what"]]
        if self.err(impl) and impl["error"] == want:
            return []
        return [(f"{case['what']} ({ {k: v for k, v in case.items() if k not in ('kind', 'what')} }): "
                 f"expected {want}, got {impl}", None)]

    # ---- greedy
    def cmp_greedy(self, case, impl, model):
        m = model["model"]
        if m == "error":
            return [] if self.err(impl) else ["model: blank index error, implementation returned a value"]
        if self.err(impl):
            return [f"implementation raised {impl['error']}: {impl.get('message')}"]
        exact = case["stream"] != "tol"
        out = []
        if m["score"] != model["spec"]["score"] or m["paths"] != model["spec"]["labels"]:
            raise RuntimeError(f"internal: greedy model {m} != spec {model['spec']} (C07_greedy)")
        if not all_close(impl["score"], m["score"], exact, case.get("dtype")):
            out.append(f"score impl={impl['score']} model={m['score']}")
        ties = model["flags"]["tie"]
        for n in range(len(case["frames"])):
            if ties[n]:
                continue
            if impl["out_lens"][n] != m["out_lens"][n] or impl["paths"][n] != m["paths"][n]:
                out.append(f"element {n}: path impl={impl['paths'][n]} model={m['paths'][n]}")
        return out

    def pred_greedy(self, case, impl, model):
        V = case["V"]
        if not (-V <= case["blank"] <= V - 1):
            return [] if self.err(impl) and impl["error"] == "RuntimeError" else [
                ("blank index out of range accepted", None)]
        if self.err(impl):
            return [(f"ctc_greedy_search raised {impl['error']}: {impl.get('message')}", None)]
        s = model["spec"]
        exact = case["stream"] != "tol"
        fails = []
        N, T = len(case["frames"]), case["T"]
        exp_shape = [N, T] if case["batch_first"] else [T, N]
        if impl["paths_shape"] != exp_shape:
            fails.append((f"paths shape {impl['paths_shape']} != {exp_shape}", None))
        if not all_close(impl["score"], s["score"], exact, case.get("dtype")):
            fails.append((f"score {impl['score']} != sum/product of frame maxima {s['score']}", None))
        for n in range(N):
            if model["flags"]["tie"][n]:
                continue
            if impl["paths"][n] != s["labels"][n]:
                fails.append((f"element {n}: {impl['paths'][n]} != frame-wise best labels with repeats and "
                              f"blanks removed {s['labels'][n]}", None))
        if not impl["module_same"]:
            fails.append(("CTCGreedySearch differs from the functional", None))
        if not impl.get("inputs_same", True):
            fails.append(("ctc_greedy_search modified its input tensors (or returned a tensor that shares "
                          "storage with one: the caller edited the results in place)", None))
        fails += self.pred_dtypes(case, impl, "ctc_greedy_search / CTCGreedySearch")
        fails += self.pred_returned(case, impl, "the CTCGreedySearch object")
        note = self.call_note(case, "ctc_greedy_search", (case["lens"], case["blank"], case["batch_first"],
                                                          case["stream"] == "probs"))
        fails = [(w + note, sg) for w, sg in fails]
        return fails

    # ------------------------------------------------------------------ evidence
    def nontrivial(self, case, impl):
        k = case["kind"]
        if self.err(impl):
            return False
        if k == "seq":
            nd = len(case["shape"])
            if not (-nd <= case["dim"] < nd) or case["eos"] is None:
                return False
            d = case["dim"] % nd
            import torch
            nc = prodl(case["shape"][:d] + case["shape"][d + 1:])
            h = torch.tensor(case["hyp"]).view(case["shape"]).movedim(d, -1).reshape(nc, case["shape"][d])
            return any(case["eos"] in r[:-1] for r in h.tolist())
        if k == "packed":
            return len(set(case["lens"])) > 1
        if k == "ctor":
            return False
        if k == "advance":
            return not case.get("bad") and case["S"] >= 1
        if k == "walk":
            T = case["max_iters"]
            return T is None or (any(l < T for l in impl["lens"]) and T >= 2)
        if k == "dist":
            return case["eos"] is not None and case["max_iters"] >= 2
        if k == "sample":
            return prodl(case["shape"]) > 0 and (impl["shape"][-1] >= 2 or len(case["shape"]) != 1)
        if k == "lpraise":
            return case["trace"] != "clean"
        if k == "greedy":
            fr = sum(min(case["T"], l) if case["lens"] is not None else case["T"]
                     for l in (case["lens"] or [0] * len(case["frames"])))
            return sum(impl["out_lens"]) < fr
        return True

    @staticmethod
    def junk_tags(t, prefix, case, ignored):
        """which kinds of non-finite garbage were really written into ignored positions"""
        kinds, other = set(), False
        if case.get("junk"):
            kinds = {k for k, ig in zip(tl.flat_list(case["junk"]), ignored)
                     if ig and k is not None and k != "ninf_other"}
            other = any(k == "ninf_other" and not ig for k, ig in zip(tl.flat_list(case["junk"]), ignored))
        if not kinds:
            t.append(f"{prefix}.ignored_scores=finite")
        for k in sorted(kinds):
            t.append(f"{prefix}.ignored_scores={k}")
        t.append(f"{prefix}.classes_that_do_not_count=" + ("some -inf (0 with is_probs)" if other else "finite"))

    def script_tags(self, case):
        """what the call sequence reaches on the caching object: per sample-shape class of the value
        how its log_prob is answered (computed from the script: contents compared as row indices, so
        two different draws that happen to be the same path count as different values)"""
        t = set()
        N, M = case["N"], prodl(case["shape"])
        n = N or 1
        tens, cache = {}, None     # tensor -> (row indices, sample shape); cache: (content, written by)
        for op in self.script_of(case):
            k = op["op"]
            if k == "sample":
                tens[op["ref"]] = (tuple(range(M * n)), tuple(case["shape"]), False)
                if M:
                    cache = (tens[op["ref"]], "sample")
            elif k in ("new", "set"):
                tens[op["ref"]] = (tuple(self.row_idx(op, N)), tuple(op["sshape"]), bool(op.get("pad")))
                if k == "set":
                    t.add("sample.script.caller_edits_a_value_in_place")
                for f in ("dtype", "lay", "swap", "pad"):
                    if op.get(f):
                        t.add(f"sample.script.value_{f}={op[f]}")
            elif k == "clear":
                cache = None
                t.add("sample.script.clear_cache")
            elif k == "edit":
                t.add("sample.script.caller_edits_returned_scores_in_place")
            else:
                cont = tens[op["ref"]]
                rank = {0: "()", 1: "(M,)"}.get(len(cont[1]), "(M1,M2,..)") + \
                    (", no batch shape" if N is None else ", batch shape")
                if not prodl(list(cont[1])):
                    t.add(f"sample.script.log_prob[sample shape {rank}, empty]")
                    continue
                hit = cache is not None and cache[0] == cont
                t.add(f"sample.script.log_prob[sample shape {rank}]=" +
                      (f"hit on an entry written by {cache[1]}" if hit else "miss"))
                if not hit:
                    cache = (cont, "log_prob")
        return sorted(t)

    def tags(self, case, impl):
        k = case["kind"]
        t = ["kind=" + k]

        def lay(prefix, *names):
            for nm in names:
                t.append(f"{prefix}.{nm}={case.get(nm) or 'contig'}")

        def lm_tags(prefix):
            t.append(f"{prefix}.lm_state_dict={case.get('lm_mut') or 'new dictionaries'}")
            t.append(f"{prefix}.lm_rows_after_eos={case.get('default_junk') or 'finite'}")

        if k in ("seq", "packed", "greedy", "advance", "walk", "dist", "sample"):
            t.append(f"{k}.caller_edits_returned_tensors_in_place={ret_kind(case)}")
        if k in ("seq", "packed", "greedy", "advance", "walk"):
            name, opt = {
                "seq": lambda: ("sequence_log_probs", (case["dim"], case["eos"])),
                "packed": lambda: ("sequence_log_probs", (case["dim"], case.get("eos_arg"))),
                "greedy": lambda: ("ctc_greedy_search", (case["lens"], case["blank"], case["batch_first"],
                                                         case["stream"] == "probs")),
                "advance": lambda: ("random_walk_advance", (case["lens"],)),
                "walk": lambda: ("RandomWalk.forward", (case.get("sel"), case["N"] if case["batched"] else None,
                                                        case["max_iters"])),
            }[k]()
            if case.get("omit"):
                left = tl.omitted(name, opt)
                t.append(f"{k}.call=default-valued optional arguments left out")
                t += [f"{k}.left_out={nm}" for nm in left] or [f"{k}.left_out=(none had its default)"]
            else:
                t.append(f"{k}.call=every argument passed")
            if k in ("seq", "packed", "greedy"):
                t.append(f"{k}.score_magnitude<={4 * case.get('mag', 1)}")
        if k in ("dist", "sample") and case["max_iters"] is not None:
            t.append(f"{k}.enumerate_support_calls_edited_in_between=" +
                     "/".join("expanded" if e else "unexpanded" for e in support_calls(case)))

        def eos_tag(prefix):
            e = case["eos"]
            t.append(f"{prefix}.eos=" + ("unset" if e is None else "negative index" if e < 0 else "index"))

        if k == "seq":
            t += [f"seq.rank={len(case['shape'])}", f"seq.dim={case['dim']}",
                  "seq.eos=" + ("unset" if case["eos"] is None else
                                "negative" if case["eos"] < 0 else
                                "oov" if not (0 <= case["eos"] < case["V"]) else "in"),
                  "stream=" + ("exact" if case["exact"] else "tol"), f"seq.dtype={case.get('dtype', 'f32')}"]
            lay("seq", "lay_logits", "lay_hyp")
            nd_ = len(case["shape"])
            if -nd_ <= case["dim"] < nd_ and case["shape"][case["dim"] % nd_] == 0 and case["eos"] is not None:
                t.append("seq.zero_size_sequence_dim_with_eos")
            if case["V"] == 0:
                t.append("seq.no_classes(V=0)," + ("hyp has cells" if prodl(case["shape"]) else "hyp empty"))
            self.junk_tags(t, "seq", case, self.seq_ignored(case).reshape(-1).tolist())
        elif k == "packed":
            t += [f"packed.N={len(case['lens'])}", f"packed.dim={case['dim']}",
                  f"packed.enforce_sorted={case['enforce_sorted']}",
                  "stream=" + ("exact" if case["exact"] else "tol"),
                  f"packed.dtype={case.get('dtype', 'f32')}",
                  "packed.eos_arg=" + ("unset" if case.get("eos_arg") is None else "set")]
            lay("packed", "lay_data", "lay_hyp")
            if case.get("hyp_rows"):
                t.append("packed.malformed=hyp with a sequence too " + ("many" if case["hyp_rows"] > 0 else "few"))
            if case.get("bad_index"):
                t.append("packed.malformed=" + case["bad_index"] + " outside the batch")
            Tm = max(case["lens"])
            self.junk_tags(t, "packed", case, [tt >= case["lens"][n] or (tt < len(h) and not 0 <= h[tt] < case["V"])
                                               for n, h in enumerate(case["hyp"]) for tt in range(Tm)])
        elif k == "walk":
            t += [f"walk.V={case['V']}", f"walk.T={case['max_iters']}", f"walk.N={case['N']}",
                  f"walk.batched={case['batched']}", f"walk.wrapper_cache_samples={bool(case.get('cache'))}",
                  "stream=" + ("exact" if case["exact"] else "tol"),
                  f"walk.dtype={case.get('dtype', 'f32')}",
                  "walk.initial_state=" + ("unset" if case.get("sel") is None else "selects tables")]
            eos_tag("walk")
            lm_tags("walk")
            lay("walk", "lm_layout")
            if not self.err(impl) and case["max_iters"] is not None and impl["rows"] < case["max_iters"]:
                t.append("walk.early_break")
        elif k == "dist":
            t += [f"dist.T={case['max_iters']}", f"dist.batch={case['N']}", "stream=tol",
                  f"dist.validate_args={case.get('validate_args', True)}",
                  f"dist.cache_samples={bool(case.get('cache'))}",
                  "dist.initial_state=" + ("unset" if case.get("sel") is None else "selects tables")]
            eos_tag("dist")
            lm_tags("dist")
        elif k == "sample":
            t += [f"sample.shape={case['shape']}", f"sample.batch={case['N']}",
                  f"sample.max_iters={'unset' if case['max_iters'] is None else 'set'}",
                  f"sample.validate_args={case.get('validate_args', True)}",
                  f"sample.dtype={case.get('dtype', 'f32')}",
                  "sample.initial_state=" + ("unset" if case.get("sel") is None else "selects tables"),
                  "stream=" + ("exact" if case["exact"] else "tol")]
            eos_tag("sample")
            lm_tags("sample")
            lay("sample", "lm_layout")
            t += self.script_tags(case)
            if not self.err(impl) and case["max_iters"] is not None and prodl(case["shape"]) \
                    and impl["shape"][-1] < case["max_iters"]:
                t.append("sample.all_walks_ended_early")
            e = norm_eos(case)
            if not self.err(impl) and case["N"] is not None and e not in (None, 0) \
                    and any(e in r[:-1] for r in impl["rows"]):
                t.append("sample.batched_cells_after_first_nonzero_eos")
        elif k == "greedy":
            t += [f"greedy.blank={case['blank']}", f"greedy.batch_first={case['batch_first']}",
                  f"greedy.lens={'set' if case['lens'] is not None else 'unset'}",
                  "stream=" + {"probs": "exact(is_probs)", "logp": "exact", "tol": "tol"}[case["stream"]],
                  f"greedy.dtype={case.get('dtype', 'f32')}"]
            lay("greedy", "lay_logits", "lay_lens")
            self.junk_tags(t, "greedy", case, [case["lens"] is not None and tt >= case["lens"][n]
                                               for n in range(len(case["frames"])) for tt in range(case["T"])])
        elif k == "lpraise":
            t += [f"lpraise.trace={case['trace']}", f"lpraise.batch={case['N']}",
                  f"lpraise.validate_args={case['validate_args']}",
                  "lpraise.eos=" + ("unset" if case["eos"] is None else "index")]
        elif k == "ctor":
            t.append("ctor." + case["what"])
        elif k == "advance":
            S, lens = case["S"], case["lens"]
            t += [f"advance.S={S}", "advance.lens=" + ("unset" if lens is None else "all full" if min(lens) >= S
                                                       else "none full" if max(lens) < S else "mixed"),
                  f"advance.dtype={case.get('dtype', 'f32')}"]
            lay("advance", "lay_lp", "lay_y")
            if case.get("bad"):
                t.append("advance.malformed=" + case["bad"])
        return t

    # ------------------------------------------------------------------ shrinking
    def shrink(self, case):
        k = case["kind"]
        for f, plain in (("lay_logits", "contig"), ("lay_hyp", "contig"), ("lay_data", "contig"),
                         ("lay_lens", "contig"), ("lm_layout", "contig"), ("lay_lp", "contig"),
                         ("lay_y", "contig"), ("dtype", "f32")):
            if case.get(f) not in (None, plain):
                c = dict(case)
                c[f] = plain
                yield c
        for f in ("lm_mut", "default_junk"):
            if case.get(f) is not None:
                c = dict(case)
                c[f] = None
                yield c
        if case.get("junk"):
            c = dict(case)
            c["junk"] = None
            yield c
        if case.get("cache"):
            c = dict(case)
            c["cache"] = False
            yield c
        if case.get("ret_edit") not in (None, "incr"):
            c = dict(case)
            c["ret_edit"] = "incr"
            yield c
        if case.get("supp_calls") and len(case["supp_calls"]) > 2:
            for i in range(len(case["supp_calls"])):
                c = dict(case)
                c["supp_calls"] = case["supp_calls"][:i] + case["supp_calls"][i + 1:]
                yield c
        if case.get("omit"):
            c = dict(case)
            c["omit"] = False
            yield c
        if k == "seq":
            yield from self.shrink_seq(case)
        elif k == "walk":
            N, T = case["N"], case["max_iters"]
            if N > 1:
                for drop in range(N):
                    c = dict(case)
                    c["N"] = N - 1
                    if case.get("sel") is None:
                        c["tables"] = [t for i, t in enumerate(case["tables"]) if i != drop]
                    else:
                        c["sel"] = [t for i, t in enumerate(case["sel"]) if i != drop]
                    c["draws"] = [[x for i, x in enumerate(r) if i != drop] for r in case["draws"]]
                    yield c
            if T is not None and T > 0:
                c = dict(case)
                c["max_iters"] = T - 1
                c["draws"] = case["draws"][: T - 1]
                yield c
        elif k == "sample":
            yield from self.shrink_sample(case)
        elif k == "dist":
            if len(case["values"]) > 1:
                h = len(case["values"]) // 2
                for part in (case["values"][:h], case["values"][h:]):
                    c = dict(case)
                    c["values"] = part
                    yield c
        elif k == "greedy":
            N = len(case["frames"])
            if N > 1:
                for drop in range(N):
                    c = dict(case)
                    c["frames"] = [f for i, f in enumerate(case["frames"]) if i != drop]
                    c["lens"] = None if case["lens"] is None else [l for i, l in enumerate(case["lens"]) if i != drop]
                    if case.get("junk"):
                        c["junk"] = [f for i, f in enumerate(case["junk"]) if i != drop]
                    yield c
            if case["T"] > 0:
                c = dict(case)
                c["T"] = case["T"] - 1
                c["frames"] = [f[:-1] for f in case["frames"]]
                if case.get("junk"):
                    c["junk"] = [f[:-1] for f in case["junk"]]
                yield c
                # drop the first frame instead
                c = dict(case)
                c["T"] = case["T"] - 1
                c["frames"] = [f[1:] for f in case["frames"]]
                c["lens"] = None if case["lens"] is None else [max(l - 1, 0) for l in case["lens"]]
                if case.get("junk"):
                    c["junk"] = [f[1:] for f in case["junk"]]
                yield c
            if case["lens"] is not None:
                c = dict(case)
                c["lens"] = None
                yield c
        elif k == "packed":
            N = len(case["lens"])
            if N > 1:
                for drop in range(N):
                    lens = [l for i, l in enumerate(case["lens"]) if i != drop]
                    if max(lens) != max(case["lens"]):
                        continue
                    if case["enforce_sorted"] and any(a < b for a, b in zip(lens, lens[1:])):
                        continue
                    c = dict(case)
                    c["lens"] = lens
                    c["hyp"] = [h for i, h in enumerate(case["hyp"]) if i != drop]
                    c["logits"] = [h for i, h in enumerate(case["logits"]) if i != drop]
                    if case.get("junk"):
                        c["junk"] = [h for i, h in enumerate(case["junk"]) if i != drop]
                    yield c

    def shrink_sample(self, case):
        """smaller scripts first (drop a call together with what depends on it, plain tensors), then
        a smaller sample with the fixed basic script"""
        import random
        script = self.script_of(case)

        def consistent(ops):
            """drop what refers to dropped tensors / calls"""
            have, ids, out = set(), set(), []
            for op in ops:
                k = op["op"]
                if k in ("sample", "new"):
                    have.add(op["ref"])
                elif k in ("set", "lp") and op["ref"] not in have:
                    continue
                elif k == "edit" and op["id"] not in ids:
                    continue
                if k == "lp":
                    ids.add(op["id"])
                out.append(op)
            return out

        if case.get("script") is not None:
            for i in range(len(script) - 1, 0, -1):
                ops = consistent(script[:i] + script[i + 1:])
                if any(op["op"] == "lp" for op in ops) and ops[0]["op"] == "sample":
                    c = dict(case)
                    c["script"] = ops
                    yield c
            for i, op in enumerate(script):
                if op["op"] == "new" and any(op.get(f) for f in ("dtype", "lay", "swap", "pad")):
                    c = dict(case)
                    c["script"] = script[:i] + [{f: v for f, v in op.items() if f not in ("dtype", "lay", "swap", "pad")}] \
                        + script[i + 1:]
                    yield c
        segs = ["hit_after_sample", "twice:full", "twice:one", "equal_copy", "edit_sample", "edit_value",
                "edit_scores", "cleared", "reshaped", "edit_resample"]
        if len(case["shape"]) > 1 and case["N"] is not None:
            c = dict(case)
            c["shape"] = [prodl(case["shape"])]
            c["script"] = self.sample_script(random.Random(0), c["shape"], case["N"], 0, segs)
            yield c
        if case["N"] is not None and len(case["shape"]) == 1 and case["shape"][0] > 1:
            c = dict(case)
            c["shape"] = [case["shape"][0] - 1]
            c["draws"] = case["draws"][:-1]
            c["script"] = self.sample_script(random.Random(0), c["shape"], case["N"], 0, segs)
            yield c

    def shrink_seq(self, case):
        import torch
        shape, V = case["shape"], case["V"]
        nd = len(shape)
        if not (-nd <= case["dim"] < nd):
            return
        hyp = torch.tensor(case["hyp"], dtype=torch.long).view(shape)
        idx = torch.arange(prodl(shape) * V).view(shape + [V])
        for ax in range(nd):
            if shape[ax] > 1:
                for sl in (slice(0, shape[ax] - 1), slice(1, shape[ax])):
                    h = hyp.narrow(ax, sl.start, sl.stop - sl.start)
                    ii = idx.narrow(ax, sl.start, sl.stop - sl.start)
                    c = dict(case)
                    c["shape"] = list(h.shape)
                    c["hyp"] = h.reshape(-1).tolist()
                    c["logits"] = [case["logits"][i] for i in ii.reshape(-1).tolist()]
                    if case.get("junk"):
                        pos = torch.arange(prodl(shape)).view(shape).narrow(ax, sl.start, sl.stop - sl.start)
                        c["junk"] = [case["junk"][i] for i in pos.reshape(-1).tolist()]
                    yield c
        if nd > 1:
            d = case["dim"] % nd
            for ax in range(nd):
                if ax != d and shape[ax] == 1:
                    c = dict(case)
                    c["shape"] = shape[:ax] + shape[ax + 1:]
                    c["dim"] = d - (1 if ax < d else 0)
                    yield c
                    break


class _null:
    def __enter__(self):
        return None

    def __exit__(self, *a):
        return False


class _walk_replay:
    """replay for sample(): with a batch shape the draws are grouped per walk; a walk that stops
    early leaves the rest of its group unused, so the queue is re-aligned at each walk start."""

    def __init__(self, case, log):
        self.case, self.log = case, log

    def __enter__(self):
        import torch
        case = self.case
        self.saved = torch.multinomial
        if case["N"] is None:
            groups = [case["draws"]]
        else:
            groups = case["draws"]
        state = {"g": -1, "t": 0, "last_rows": None}
        T = case["max_iters"]
        outer = self

        def fake(probs, num_samples, replacement=False, **kw):
            # a new walk starts whenever RandomWalk.forward was entered since the last draw
            p = probs
            fresh = state["fresh_hint"]() or state["g"] < 0
            if fresh:
                state["g"] += 1
                state["t"] = 0
            if state["g"] >= len(groups) or state["t"] >= len(groups[state["g"]]):
                raise tl.ReplayError("multinomial called more often than draws were supplied")
            row = groups[state["g"]][state["t"]]
            state["t"] += 1
            y = torch.tensor(row, dtype=torch.long).unsqueeze(1)
            if len(row) != p.size(0) or (y >= p.size(1)).any():
                raise tl.ReplayError(f"unexpected multinomial call {tuple(p.shape)} for draw {row}")
            if not bool((p.gather(1, y) > 0).all()):
                raise tl.ReplayError(f"draw {row} has probability zero under {p.tolist()}")
            outer.log.append(row)
            return y

        # the walk signals its start by calling lm.update_input with an empty history; hook that
        import pydrobert.torch._decoding as dec
        self.dec = dec
        self.saved_fwd = dec.RandomWalk.forward
        flag = {"new": False}

        def fwd(this, *a, **k):
            flag["new"] = True
            return outer.saved_fwd(this, *a, **k)

        def hint():
            if flag["new"]:
                flag["new"] = False
                return True
            return False

        state["fresh_hint"] = hint
        dec.RandomWalk.forward = fwd
        torch.multinomial = fake
        return self

    def __exit__(self, *a):
        import torch
        torch.multinomial = self.saved
        self.dec.RandomWalk.forward = self.saved_fwd
        return False


CHECK = C07()
