"""C02 — error rate counts the edits of some minimum-cost alignment.

Streams
  scalar / prefix : functional.error_rate, functional.prefix_error_rates and the modules
                    ErrorRate / PrefixErrorRates on ragged batches (exact stream: dyadic costs,
                    every float32 operation of the implementation is exact except the final
                    division by the reference length, which is IEEE-correctly rounded and is
                    reproduced as such).
  mer             : functional.minimum_error_rate_loss / MinimumErrorRateLoss (tolerance stream). The
                    softmax weights are computed HERE, independently of the code under test and of
                    torch: exact rational max-shift, 60-digit decimal exp, rounded to 40 decimal
                    places (softmax_oracle); they are handed to the model and used by the predicate.
                    log_probs classes per batch row: ordinary, normalised, all very negative with small
                    differences (joint log-probabilities of long hypotheses; around and far beyond the
                    float32 / float64 exp underflow thresholds), large positive unnormalised scores
                    (beyond the exp overflow thresholds), one dominant sample, huge spread, exact
                    ties, -inf entries (zero-probability samples); float32 and float64.
  big             : size-triggered code paths. Sequence dimensions R / H at and around 63..66, 127..130,
                    255..257, 200..330 and 9..62 (few sequences), in every stream (rate, normalised rate,
                    per-prefix table, loss; both cost branches - unequal costs up to 130 x 130). References
                    that fill the whole dimension, that carry their eos in the very last slot, and short
                    eos-terminated ones in the same batch; every hypothesis is derived from its reference
                    (prefix / suffix / sub-sequence / appended / prepended / inserted / substituted /
                    shifted) so that the optimal alignment starts or ends with deletions / insertions; thin
                    shapes (one dimension 0..3). The Lean driver evaluates these with the one-pass form of
                    the model (proved equal to the literal one: C02_fast_*).
  wide            : the other size measure - N (or the sample dimension M of the loss) at and around
                    63..65, 127..129, 255..257, ~1000, short ragged sequences; an empty batch (N = 0).
  every stream    : token ids relabelled injectively (35 %) to ids around 2^8, 2^11, 2^15/16, 2^24, 2^31/32,
                    2^53, 2^63 and to negative ids; warn passed False / True / left to its default;
                    memory layout of every tensor argument (contiguous / transposed storage / slice
                    of a wider buffer / every-other-element stride), int32 and int64 tokens;
                    42 %: ref and hyp in their OWN integer dtypes - every ordered pair over uint8 / int8 /
                    int16 / int32 / int64, by a schedule - with ids that differ between the two tensors by
                    a multiple of 2^8 / 2^16 / 2^32 (different tokens that any narrowing or sign
                    reinterpretation of one tensor merges), the eos among them, and an eos that only
                    fits one of the two dtypes (_mix_tokens); options
                    passed explicitly or left to the documented defaults, arguments not modified.
  malformed       : wrong shapes / sample counts -> the documented error class (8 fixed calls).
  shapes          : random argument-shape sets vs. the model's checkPairShapes / checkMerShapes
                    (accepted with the documented result shape, or RuntimeError).

Correspondence: impl == Lean model (exact tie-breaking of the paired table).
Predicate (on the implementation's output, oracle = Lean spec computed without the model):
  fewest <= count <= most edits among minimum-cost scripts; == plain Levenshtein distance when
  the three costs are equal; norm / empty-reference conventions; prefix padding; MER loss ==
  softmax weight x (error rate - mean) with the error rates of the documented pairs.
"""
import itertools
from fractions import Fraction

from common.framework import PropertyCheck, frac_str

COST_POOL = ["1/4", "1/2", "1", "3/2", "2", "3", "4"]
# unequal triples (ins, del, sub) that create cost ties between alignments with different numbers
# of edits: ins + del = sub (one substitution vs. one insertion + one deletion), and neighbours
TIE_TRIPLES = [
    ("1", "1", "2"), ("1/2", "1/2", "1"), ("1/2", "3/2", "2"), ("3/2", "1/2", "2"), ("1", "2", "3"),
    ("2", "1", "3"), ("1", "3", "4"), ("2", "2", "4"), ("1/4", "1/4", "1/2"), ("1", "1/2", "3/2"),
    ("1/2", "1", "3/2"), ("1/4", "3/4", "1"),
]
OTHER_TRIPLES = [
    ("1", "1", "3/2"), ("1", "1", "1/2"), ("2", "1", "1"), ("1", "2", "1"), ("1", "1/2", "1"),
    ("1/2", "1", "1"), ("1", "1", "3"), ("1", "1", "4"), ("3", "1", "2"), ("1/4", "4", "2"),
    ("4", "1/4", "2"), ("2", "3", "1"), ("1/2", "2", "4"),
]
EQUAL_TRIPLES = [("1", "1", "1"), ("1/2", "1/2", "1/2"), ("2", "2", "2"), ("3", "3", "3"),
                 ("1/4", "1/4", "1/4"), ("3/2", "3/2", "3/2")]
ABSENT_EOS = 9
MEMS = ["contig", "contig", "transposed", "slice", "step"]
# float32 exp underflows to a denormal below -87.3 and to 0 below -103.3, overflows above 88.7;
# float64: -708.4 / -745.1 / 709.8. The offsets sit around and far beyond these thresholds.
NEG_OFFSETS = [-30, -86, -89, -96, -104, -120, -200, -700, -712, -746, -1000, -10000, -100000]
POS_OFFSETS = [30, 87, 90, 120, 700, 712, 1000, 10000, 100000]
LP_CLASSES = ["ordinary", "ordinary", "normalised", "very_negative", "very_negative", "large_positive",
              "dominant", "spread", "ties", "neg_inf"]
# size-triggered code paths: sequence dimensions at and around the powers of two where an
# implementation may switch strategy (chunking, serial fall-backs for big intermediates, ...)
BIG_EDGES = [63, 64, 65, 66, 127, 128, 129, 130]
BIG_EDGES_2 = [255, 256, 257]
WIDE_N = [63, 64, 65, 127, 128, 129, 255, 256, 257]
# token ids are only ever compared for equality: any injective relabelling must leave every result
# unchanged. Offsets straddle the points where a narrower or a floating representation of the ids
# would merge or wrap distinct ids (uint8 / int16 / uint16 / int32 range, integer exactness of float16
# 2^11, float32 2^24, float64 2^53); "neg": negative ids (t -> -1 - t).
TOK_OFFSETS_32 = [254, 2047, 32766, 65534, 2 ** 24 - 2, 2 ** 31 - 48]
TOK_OFFSETS_64 = [2 ** 31 - 2, 2 ** 32 - 2, 2 ** 53 - 2, 2 ** 63 - 48]
# token dtypes: the two token tensors of a call need not share their integer dtype (references kept in a
# compact dtype, int64 hypotheses out of a beam search, ...): (lowest, highest, bits)
DTYPES = {"uint8": (0, 255, 8), "int8": (-128, 127, 8), "int16": (-2 ** 15, 2 ** 15 - 1, 16),
          "int32": (-2 ** 31, 2 ** 31 - 1, 32), "int64": (-2 ** 63, 2 ** 63 - 1, 64)}
# every ORDERED (ref dtype, hyp dtype) pair; visited by a schedule (period 25), not by independent draws
DTYPE_PAIRS = [(a, b) for a in DTYPES for b in DTYPES]
DEFAULTS = {"eos": None, "include_eos": True, "norm": True, "batch_first": False, "ins": "1", "del": "1",
            "sub": "1", "padding": -100, "exclude_last": False, "sub_avg": True, "reduction": "mean"}


def F(s):
    return Fraction(s)


def f32_quot(q):
    """The float32 the implementation must produce for the exact rational q = a/b with small a, b:
    float32(a)/float32(b), IEEE correctly rounded (numerator and denominator are exact)."""
    import numpy as np
    q = Fraction(q)
    return Fraction(float(np.float32(q.numerator) / np.float32(q.denominator)))


def py_cut(seq, eos, include_eos):
    if eos is None:
        return list(seq)
    if eos in seq:
        i = seq.index(eos)
        return list(seq[: i + (1 if include_eos else 0)])
    return list(seq)


def columns(t, batch_first, N):
    if batch_first:
        return [list(r) for r in t]
    return [[row[n] for row in t] for n in range(N)]


def layout(cols, batch_first, L):
    """columns (N lists of length L) -> nested list in the requested layout"""
    if batch_first:
        return [list(c) for c in cols]
    return [[c[l] for c in cols] for l in range(L)]


class C02(PropertyCheck):
    pid = "C02"
    rule = ("scalar/prefix: ragged batches N<=4, R,H<=6 (thorough <=8), alphabet<=4, eos unset / in "
            "alphabet (every position incl. 0, random filler after it, or missing in the column) / "
            "absent from the data, include_eos x norm x batch_first x exclude_last, functional + "
            "module entry points, zero-size dimensions; cost triples: equal (shortcut), unequal with "
            "ins+del=sub and other ties, random from {1/4,1/2,1,3/2,2,3,4}^3; exhaustive sub-grid: all "
            "pairs over {0,1} with lengths <=3 (eos-padded, ragged) x 6 cost triples x norm x kind. "
            "mer: N<=3, M in 2..4, 2-D and 3-D ref, both layouts, sub_avg both, all reductions; "
            "log_probs per batch row from {ordinary U(-6,0), normalised, all very negative (offsets -30 .. "
            "-1e5, i.e. around and beyond the float32/float64 exp underflow points) with differences "
            "<= 6, large positive (offsets 30 .. 1e5, beyond the exp overflow points), one dominant "
            "sample, spread up to +-1e5, exact ties, 1..M-1 entries -inf}, float32 and float64. "
            "every stream: tensor arguments contiguous / transposed storage / slice of a wider buffer / "
            "every-other-element stride; int64 / int32 tokens; options passed explicitly or (30%) left "
            "to the documented defaults; arguments compared before/after the call. "
            "shapes: 150 (thorough 1500) argument-shape sets of rank 1..4, well-formed or damaged in 1-2 places "
            "(dimension added / dropped / swapped / resized, unknown reduction, one sample) -> accepted "
            "with the documented result shape, or RuntimeError. "
            "big: 24 (thorough 150) batches with a sequence dimension at/around 63..66, 127..130, 255..257, "
            "200..260 (thorough ..330) or 9..62 in R, in H or in both, the other dimension equal / +-1..3 / a "
            "third shorter or longer / 0..3, N <= 4 (loss: N*M <= 4), kinds scalar / prefix / mer, equal costs "
            "80% (unequal only up to 130 x 130), references full / eos in the last slot / short / empty in one "
            "batch, hypotheses = prefix, suffix, sub-sequence, append, prepend, insert, substitute, shift of "
            "the reference transcript or random; wide: 12 (thorough 40) batches with N in {63..65, 127..129, "
            "255..257, 1000..1100, 0} (loss: M in {16,17,33,64,65} or N in {33,64,65,129}), R,H <= 4. "
            "every stream: token ids relabelled (35%) by offsets 254, 2047, 32766, 65534, 2^24-2, 2^31-48 "
            "(int64 also 2^31-2, 2^32-2, 2^53-2, 2^63-48) or t -> -1-t; warn False / True / default; "
            "instead of that relabelling, 42% of the cases of every stream (and every 4th chunk of the exhaustive "
            "sub-grid): ref and hyp dtypes = the next of the 25 ordered pairs over {uint8, int8, int16, int32, "
            "int64} (schedule), every id mapped to a residue class mod 2^m (m in {8,16,32}, at most the narrower "
            "width; classes at the bottom / sign boundary / top / wrap point of the m-bit range) and to one "
            "representative per tensor inside that tensor's dtype range - the same integer (50% when one exists) "
            "or two different ones (aliased ids: k in {0,+-1,+-2,lowest,highest,middle}); the eos is mapped like "
            "an id and passed as the ref's or the hyp's representative (may lie outside the other dtype). "
            "non-trivial: some column has both cut sequences non-empty, not identical; distinct by "
            "(cut pairs, costs, option cell, memory layout, log_probs classes)")
    assumptions = [
        "float32 arithmetic of the implementation is exact on the generated domain (dyadic costs, "
        "small integers) except the final division by the reference length, which is reproduced as "
        "the IEEE correctly-rounded float32 quotient",
        "the softmax weights of the loss are an input of the model; they are computed by the harness "
        "without torch (exact rational max-shift, 60-digit decimal exp, rounded to 40 decimal places) "
        "and the MER stream compares with rtol 1e-5 / atol 5e-6 (float32 / float64 rounding of the "
        "implementation's exp, sum, product and mean() / sum() order is not modelled)",
        "the loss comparison's absolute tolerance grows with the magnitude of the error rates "
        "(max(5e-6, 2^-22 * largest possible error rate of the case * (N for reduction='sum'))): the float32 "
        "rounding of mean(er) survives the cancellation in er - mean(er); on the original small domain "
        "this is 5e-6 as before",
        "the repairs fixes/C01-lens-from-eos-empty.diff and fixes/C01-prefix-exclude-last-empty-hyp.diff "
        "(owned by C01) are part of the modelled behaviour for zero-size dimensions; "
        "fixes/C02-mer-strided-inputs.diff for arguments whose batch x sample dimensions cannot be "
        "merged by view()",
        "fixes/C02-eos-outside-token-dtype.diff (an eos outside the range of a token tensor's dtype matches "
        "nothing in that tensor) is part of the modelled behaviour; until it is applied the unrepaired "
        "behaviour is recognised exactly (result == the batch cut at the ids congruent to the eos) and "
        "reported as the known finding C02.eos_outside_token_dtype_wraps",
    ]
    exhaustive = {"quick": False, "thorough": False}
    quick_budget_s = 75
    thorough_budget_s = 800

    def __init__(self):
        # how often the bounds were a genuine interval, and where the implementation landed
        self.stats = {"values_checked": 0, "tie_values(min<max)": 0, "impl_at_min": 0, "impl_at_max": 0,
                      "impl_strictly_between": 0, "brute_force_oracle_values": 0}

    def extra_checks(self, rng, tier, report):
        report["extra"]["c02_bounds_statistics"] = dict(self.stats)

    # ------------------------------------------------------------------ generators
    def _columns(self, rng, N, L, alphabet, eos_mode, eos):
        cols, lens = [], []
        for _ in range(N):
            if eos_mode == "in":
                ln = rng.randint(0, L)  # ln == L: this column has no eos at all
                body = [rng.choice([a for a in alphabet if a != eos]) for _ in range(ln)]
                if ln < L:
                    body.append(eos)
                    body += [rng.choice(alphabet) for _ in range(L - ln - 1)]  # filler, may repeat eos
                cols.append(body)
            else:
                cols.append([rng.choice(alphabet) for _ in range(L)])
        return cols

    def _costs(self, rng):
        r = rng.random()
        if r < 0.22:
            return rng.choice(EQUAL_TRIPLES)
        if r < 0.62:
            return rng.choice(TIE_TRIPLES)
        if r < 0.8:
            return rng.choice(OTHER_TRIPLES)
        return (rng.choice(COST_POOL), rng.choice(COST_POOL), rng.choice(COST_POOL))

    def _er_case(self, rng, maxlen, kind=None, small=False, N=None):
        N = rng.randint(1, 4) if N is None else N
        R = rng.randint(0, maxlen) if rng.random() < 0.93 else 0
        H = rng.randint(0, maxlen) if rng.random() < 0.93 else 0
        A = rng.randint(1, 4)
        alphabet = list(range(A))
        eos_mode = rng.choice(["unset", "in", "in", "absent"])
        eos = None if eos_mode == "unset" else (rng.choice(alphabet) if eos_mode == "in" else ABSENT_EOS)
        if eos_mode == "in" and A == 1:
            alphabet = [0, 1]
            eos = rng.choice(alphabet)
        refc = self._columns(rng, N, R, alphabet, eos_mode, eos)
        hypc = self._columns(rng, N, H, alphabet, eos_mode, eos)
        if rng.random() < 0.15 and N >= 2 and R == H:
            hypc[0] = list(refc[0])  # an exact match somewhere
        bf = rng.random() < 0.5
        ins, dl, sub = self._costs(rng)
        kind = kind or rng.choice(["scalar", "prefix"])
        case = {
            "kind": kind, "entry": rng.choice(["functional", "module"]),
            "N": N, "R": R, "H": H, "batch_first": bf,
            "ref": layout(refc, bf, R), "hyp": layout(hypc, bf, H),
            "eos": eos, "eos_mode": eos_mode, "include_eos": rng.random() < 0.5, "norm": rng.random() < 0.5,
            "ins": ins, "del": dl, "sub": sub,
        }
        if kind == "prefix":
            case["exclude_last"] = rng.random() < 0.5
            case["padding"] = rng.choice([-100, -1, 0, 7])
        self._call_style(rng, case)
        return case

    def _call_style(self, rng, case):
        """how the arguments reach the library: memory layout, token dtype, and whether options that
        have their documented default value are passed at all (then some options are drawn again
        so that the default value is frequent)"""
        case["mem"] = rng.choice(MEMS)
        case["tok_dtype"] = rng.choice(["int64", "int64", "int32"])
        case["ref_dtype"] = case["hyp_dtype"] = case["tok_dtype"]
        # warn: passed as False / True, or left to its default (True); warnings are not part of the result
        case["warn"] = rng.choice(["false", "false", "false", "true", "default"])
        if rng.random() < 0.42:
            self._mix_tokens(rng, case)
        elif rng.random() < 0.35:
            offs = TOK_OFFSETS_32 + (TOK_OFFSETS_64 if case["tok_dtype"] == "int64" else [])
            _relabel(case, rng.choice(offs + ["neg"]))
        case["omit_defaults"] = rng.random() < 0.3
        if case["omit_defaults"]:
            dflt = dict(DEFAULTS, include_eos=case["kind"] != "scalar")
            for k in ("include_eos", "norm", "exclude_last", "padding", "sub_avg", "reduction"):
                if k in case and rng.random() < 0.5:
                    case[k] = dflt[k]
            if rng.random() < 0.5:
                case["ins"], case["del"], case["sub"] = "1", "1", "1"
            else:
                for k in ("ins", "del", "sub"):
                    if rng.random() < 0.5:
                        case[k] = "1"

    def _mix_tokens(self, rng, case):
        """ref and hyp in (possibly) DIFFERENT integer dtypes, token ids that differ between the two
        tensors by a multiple of 2^m (m = 8 / 16 / 32, at most the width of the narrower dtype).

        Token ids are mathematical integers: 7 and 263 are different tokens whatever the dtypes of the
        tensors that hold them. Every id t of the case gets a residue class mod 2^m (distinct ids ->
        distinct classes, placed at the bottom, around the sign boundary 2^(m-1), at the top, or around the
        wrap point of the m-bit range) and one representative of that class per tensor, within the tensor's
        dtype range: the same integer in both tensors ("shared": the token still matches) or two different
        ones ("aliased": ref holds r, hyp holds r + k * 2^m: they no longer match, and any code that
        narrows / reinterprets one tensor to the other's dtype, or both to a common narrower one, merges
        them again). The eos is an id like any other; the eos handed to the call is the representative of
        either tensor (so it may lie outside the other tensor's dtype range, where nothing equals it)."""
        i = self._mix_i = getattr(self, "_mix_i", -1) + 1
        rd, hd = DTYPE_PAIRS[i % len(DTYPE_PAIRS)]
        bits = min(DTYPES[rd][2], DTYPES[hd][2])
        ms = [m for m in (8, 16, 32) if m <= bits]
        m = bits if (rd != hd and bits < 64 and rng.random() < 0.6) else rng.choice(ms)
        mod = 2 ** m
        ids = sorted(set(_flat(case["ref"])) | set(_flat(case["hyp"]))
                     | ({case["eos"]} if case["eos"] is not None else set()))
        K = (max(ids) + 1) if ids else 1
        start = rng.choice([0, mod // 2 - K // 2, mod - K, mod - K // 2, mod // 2 - K, rng.randrange(mod)])

        def reps(r, dt):
            lo, hi, _ = DTYPES[dt]
            kmin, kmax = -((r - lo) // mod), (hi - r) // mod
            ks = {k for k in (0, -1, 1, 2, -2, kmin, kmax, kmin + 1, kmax - 1, (kmin + kmax) // 2)
                  if kmin <= k <= kmax}
            return [r + k * mod for k in sorted(ks)]
        fr, fh, n_alias = {}, {}, 0
        for t in ids:
            r = (start + t) % mod
            a, b = reps(r, rd), reps(r, hd)
            both = [v for v in a if v in b]
            if both and rng.random() < 0.5:
                fr[t] = fh[t] = rng.choice(both)
            else:
                fr[t], fh[t] = rng.choice(a), rng.choice(b)
            n_alias += fr[t] != fh[t]
        eos_alias = case["eos"] is not None and fr[case["eos"]] != fh[case["eos"]]
        case["ref"], case["hyp"] = _map(case["ref"], fr.__getitem__), _map(case["hyp"], fh.__getitem__)
        if case["eos"] is not None:
            case["eos"] = rng.choice([fr, fh])[case["eos"]]
        case.update(ref_dtype=rd, hyp_dtype=hd, tok_relabel="mixed", alias_mod=m,
                    alias=("ids+eos" if eos_alias and n_alias > 1 else "eos" if eos_alias else
                           "ids" if n_alias else "none"))

    def _exhaustive(self, rng, tier):
        """all pairs over {0,1}, lengths <= 3, eos-padded to R = H = 3 (eos = 2), ragged batches"""
        seqs = [list(s) for L in range(4) for s in itertools.product([0, 1], repeat=L)]
        pairs = [(r, h) for r in seqs for h in seqs]
        triples = [("1", "1", "1"), ("1", "1", "2"), ("1/2", "3/2", "2"), ("2", "1", "3"),
                   ("1", "1", "3/2"), ("2", "1", "1")]
        if tier != "quick":
            triples += [("1/2", "1/2", "1/2"), ("1", "2", "3"), ("1", "1/2", "1"), ("1/4", "4", "2")]
        chunk = 9
        for ci, (ins, dl, sub) in enumerate(triples):
            for i in range(0, len(pairs), chunk):
                grp = pairs[i:i + chunk]
                for kind, norm in (("scalar", False), ("scalar", True), ("prefix", False), ("prefix", True)):
                    if tier == "quick" and ((i // chunk + ci) % 2 == 0) != (norm is False):
                        continue  # quick: alternate norm over chunks, thorough: everything
                    inc = (i // chunk) % 2 == 0
                    pad = lambda s: s + [2] + [rng.choice([0, 1, 2]) for _ in range(3 - len(s) - 1)] \
                        if len(s) < 3 else list(s)
                    refc = [pad(list(r)) for r, _ in grp]
                    hypc = [pad(list(h)) for _, h in grp]
                    bf = (i // chunk) % 3 == 0
                    case = {"kind": kind, "entry": "functional", "N": len(grp), "R": 3, "H": 3,
                            "batch_first": bf, "ref": layout(refc, bf, 3), "hyp": layout(hypc, bf, 3),
                            "eos": 2, "include_eos": inc, "norm": norm, "ins": ins, "del": dl, "sub": sub,
                            "stream": "exhaustive", "mem": MEMS[(i // chunk + ci) % len(MEMS)],
                            "tok_dtype": "int32" if (i // chunk) % 5 == 2 else "int64"}
                    if kind == "prefix":
                        case["exclude_last"] = (i // chunk) % 4 == 1
                        case["padding"] = -100
                    if (i // chunk + ci) % 4 == 3:
                        self._mix_tokens(rng, case)
                    yield case

    def _mer_case(self, rng, maxlen, N=None, M=None):
        N = N or rng.randint(1, 3)
        M = M or rng.randint(2, 4)
        R = rng.randint(0, maxlen)
        H = rng.randint(0, maxlen)
        A = rng.randint(2, 4)
        alphabet = list(range(A))
        eos_mode = rng.choice(["unset", "in", "in", "absent"])
        eos = None if eos_mode == "unset" else (rng.choice(alphabet) if eos_mode == "in" else ABSENT_EOS)
        bf = rng.random() < 0.5
        ref_dim = rng.choice([2, 3])
        hyps = [self._columns(rng, M, H, alphabet, eos_mode, eos) for _ in range(N)]  # [n][m][h]
        if ref_dim == 2:
            refs = self._columns(rng, N, R, alphabet, eos_mode, eos)  # [n][r]
            ref = refs if bf else [[refs[n][r] for n in range(N)] for r in range(R)]
        else:
            refs = [self._columns(rng, M, R, alphabet, eos_mode, eos) for _ in range(N)]  # [n][m][r]
            ref = refs if bf else [[[refs[n][m][r] for m in range(M)] for n in range(N)] for r in range(R)]
        hyp = hyps if bf else [[[hyps[n][m][h] for m in range(M)] for n in range(N)] for h in range(H)]
        ins, dl, sub = self._costs(rng)
        lp, lp_dtype, lp_classes = self._log_probs(rng, N, M)
        case = {
            "kind": "mer", "entry": rng.choice(["functional", "module"]),
            "N": N, "M": M, "R": R, "H": H, "batch_first": bf, "ref_dim": ref_dim,
            "ref": ref, "hyp": hyp, "log_probs": lp, "lp_dtype": lp_dtype, "lp_classes": lp_classes,
            "eos": eos, "eos_mode": eos_mode, "include_eos": rng.random() < 0.5, "norm": rng.random() < 0.6,
            "sub_avg": rng.random() < 0.5, "reduction": rng.choice(["mean", "sum", "none"]),
            "ins": ins, "del": dl, "sub": sub,
        }
        self._call_style(rng, case)
        return case

    def _log_probs(self, rng, N, M):
        """(N, M) scores as exact strings of float32 / float64 values ('-inf' allowed, never a whole
        row); every batch row draws its own class."""
        import math
        import numpy as np
        dtype = rng.choice(["float32", "float32", "float64"])
        rnd = (lambda v: float(np.float32(v))) if dtype == "float32" else float
        rows, classes = [], []
        for _ in range(N):
            cls = rng.choice(LP_CLASSES)
            classes.append(cls)
            if cls == "normalised":
                p = [rng.random() + 1e-3 for _ in range(M)]
                row = [math.log(x / sum(p)) for x in p]
            elif cls == "very_negative":   # joint log-probabilities of long hypotheses
                off = rng.choice(NEG_OFFSETS)
                row = [off + rng.uniform(-3, 3) for _ in range(M)]
            elif cls == "large_positive":  # unnormalised scores
                off = rng.choice(POS_OFFSETS)
                row = [off + rng.uniform(-3, 3) for _ in range(M)]
            elif cls == "dominant":
                off = rng.choice([0.0] + NEG_OFFSETS + POS_OFFSETS)
                top = rng.randrange(M)
                row = [off - (0 if m == top else rng.choice([20, 50, 100, 120, 800, 2000]) * rng.uniform(1, 1.5))
                       for m in range(M)]
            elif cls == "spread":
                sc = rng.choice([100, 2000, 100000])
                row = [rng.uniform(-sc, sc) for _ in range(M)]
            elif cls == "ties":
                v = rng.choice([0.0, -1.5] + NEG_OFFSETS + POS_OFFSETS)
                row = [v] * M
                if M > 2 and rng.random() < 0.5:
                    row[rng.randrange(M)] = v - rng.choice([0.5, 1, 200])
            else:  # ordinary, neg_inf
                row = [rng.uniform(-6, 0) for _ in range(M)]
                if cls == "neg_inf" and rng.random() < 0.4:
                    off = rng.choice(NEG_OFFSETS)
                    row = [off + x for x in row]
            row = [frac_str(rnd(x)) for x in row]
            if cls == "neg_inf":
                for m in rng.sample(range(M), rng.randint(1, M - 1)):
                    row[m] = "-inf"
            rows.append(row)
        return rows, dtype, classes


    # ------------------------------------------------------------------ size-triggered paths
    def _big_size(self, rng, tier, i):
        """the size of the 'boundary' dimension of the i-th big case: every run visits every class"""
        sched = [65, 64, 129, 63, 128, "200+", 66, 127, 130, "256", "mid", "200+"]
        s = sched[i % len(sched)] if i < 2 * len(sched) else rng.choice(sched)
        if s == "200+":
            return rng.randint(200, 260 if tier == "quick" else 330)
        if s == "256":
            return rng.choice(BIG_EDGES_2)
        if s == "mid":
            return rng.randint(9, 62)
        return s

    @staticmethod
    def _relate(rng, base, rel, k, toks):
        """a hypothesis transcript in a given relation to the reference transcript `base` (the optimal
        alignment then starts / ends with deletions or insertions, or has them at known places)"""
        L = len(base)
        k = min(max(k, 1), L) if L else 0
        new = lambda n: [rng.choice(toks) for _ in range(n)]
        if rel == "equal" or L == 0 and rel not in ("append", "prepend", "insert", "random"):
            return list(base)
        if rel == "prefix":          # trailing deletions
            return list(base[:L - k])
        if rel == "suffix":          # leading deletions
            return list(base[k:])
        if rel == "subseq":          # deletions at random places
            drop = set(rng.sample(range(L), k))
            return [t for i, t in enumerate(base) if i not in drop]
        if rel == "append":          # trailing insertions
            return list(base) + new(max(k, 1))
        if rel == "prepend":         # leading insertions
            return new(max(k, 1)) + list(base)
        if rel == "insert":          # insertions at random places
            out = list(base)
            for _ in range(max(k, 1)):
                out.insert(rng.randint(0, len(out)), rng.choice(toks))
            return out
        if rel == "subst":
            out = list(base)
            for i in rng.sample(range(L), k):
                out[i] = rng.choice([t for t in toks if t != out[i]] or toks)
            return out
        if rel == "shift":           # leading deletions + trailing insertions
            return list(base[k:]) + new(k)
        if rel == "shift_back":      # leading insertions + trailing deletions
            return new(k) + list(base[:L - k])
        return new(max(0, L + rng.choice([-k, 0, k])))   # "random"

    def _big_pairs(self, rng, P, R, H, eos_mode, eos, A, groups=None):
        """P padded (ref column, hyp column) pairs for dimensions R and H. References that fill the
        whole dimension, that end in an eos in the very last slot, and short eos-terminated ones occur
        in the same batch; every hypothesis is derived from its reference's transcript.
        groups: list of P group ids; pairs of one group share the reference column (2-D ref of the loss)"""
        toks = [a for a in range(A) if a != eos]
        everything = list(range(A))
        d = H - R

        def pad(seq, D):
            seq = list(seq[:D])
            if len(seq) == D:
                return seq
            if eos_mode == "in":
                return seq + [eos] + [rng.choice(everything) for _ in range(D - len(seq) - 1)]
            return seq + [rng.choice(toks) for _ in range(D - len(seq))]   # no eos: the dimension is the length

        # column 0 fills the dimension, column 1 fills it or carries its eos in the very last slot; the
        # others are short (eos-terminated) when the data has an eos
        if eos_mode == "in":
            profiles = ["full", rng.choice(["full", "eos_last", "eos_last"])] + \
                [rng.choice(["short", "short", "near", "empty", "eos_last"]) for _ in range(P)]
        else:
            profiles = ["full"] * (P + 2)
        # relations by the sign of H - R. The first two (in random order) put the forced deletions /
        # insertions at the END resp. the START of the alignment: they go to the two full-length columns
        if d < 0:
            first, rest = ["prefix", "suffix"], ["subseq", "shift_back", "random", "prefix"]
        elif d == 0:
            first, rest = ["shift", "shift_back"], ["subst", "equal", "random", "subst"]
        else:
            first, rest = ["append", "prepend"], ["insert", "shift", "random", "append"]
        rng.shuffle(first)
        rng.shuffle(rest)
        order = first + rest
        refs, pairs, rels = {}, [], []
        for p in range(P):
            g = groups[p] if groups else p
            if g not in refs:
                prof = profiles[len(refs)]
                ln = {"full": R, "eos_last": max(R - 1, 0), "near": max(R - rng.randint(2, 4), 0),
                      "empty": 0}.get(prof, rng.randint(0, max(R - 2, 0)))
                refs[g] = ([rng.choice(toks) for _ in range(ln)], prof)
            base, prof = refs[g]
            rel = order[p % len(order)]
            k = abs(d) if d and rel not in ("shift", "shift_back") else rng.randint(1, 3)
            hyp_t = self._relate(rng, base, rel, k, toks)
            pairs.append((pad(base, R), pad(hyp_t, H)))
            rels.append(prof + "/" + rel)
        return pairs, rels

    def _big_dims(self, rng, size, shorter_hyp=None):
        which = rng.choice(["R", "R", "H", "both", "thin"])
        far = max(size // 3, 1)
        if shorter_hyp is None:
            d = rng.choice([-1, -1, -1, -2, -3, 0, 0, 1, 1, 2, -far, far, -(size - 2)])
        elif shorter_hyp:
            d = rng.choice([-1, -1, -1, -2, -3, -far, -(size - 2)])
            which = rng.choice(["R", "R", "H", "R", "thin"])
        else:
            d = rng.choice([0, 0, 1, 1, 2, far])
        if which == "R":
            R, H = size, max(0, size + d)
        elif which == "H":
            H, R = size, max(0, size - d)
        elif which == "both":
            R, H = size, size + rng.choice([-1, 0, 0, 1])
        elif shorter_hyp or (shorter_hyp is None and rng.random() < 0.5):
            R, H = size, rng.randint(0, 3)   # thin: one long dimension, the other very short
        else:
            R, H = rng.randint(0, 3), size
        return R, H

    def _big_case(self, rng, tier, i):
        """sequence dimensions of tens to hundreds of positions, few sequences (see BIG_EDGES)"""
        size = self._big_size(rng, tier, i)
        # the option that selects a code path (size class) is CROSSED with the options that make a wrong
        # path visible, not drawn independently: the schedule of sizes has period 12; each size class is
        # visited once with a shorter hypothesis (deletions) and once with an equal / longer one in every
        # 24 cases; unequal costs every 5th case (coprime to 12 and to the period 7 of the kinds)
        R, H = self._big_dims(rng, size, shorter_hyp=(i // 12 + i) % 2 == 0)
        kind = ["scalar", "prefix", "mer", "scalar", "prefix", "scalar", "mer"][i % 7]
        eos_mode = rng.choice(["unset", "in", "in", "absent"])
        A = rng.choice([3, 3, 4, 5, 30])
        eos = None if eos_mode == "unset" else (rng.randrange(A) if eos_mode == "in" else ABSENT_EOS)
        ins, dl, sub = rng.choice(EQUAL_TRIPLES) if i % 5 != 4 else \
            rng.choice(TIE_TRIPLES + OTHER_TRIPLES)
        if not (F(ins) == F(dl) == F(sub)) and R * H > 130 * 130:
            # the implementation's mistakes branch is a python double loop over R x H: keep it affordable
            ins, dl, sub = rng.choice(EQUAL_TRIPLES)
        bf = rng.random() < 0.5
        if kind == "mer":
            N, M = rng.choice([(1, 2), (1, 3), (2, 2)])
            ref_dim = rng.choice([2, 3])
            groups = [n if ref_dim == 2 else n * M + m for n in range(N) for m in range(M)]
            pairs, rels = self._big_pairs(rng, N * M, R, H, eos_mode, eos, A, groups)
            hyps = [[pairs[n * M + m][1] for m in range(M)] for n in range(N)]
            if ref_dim == 2:
                refs = [pairs[n * M][0] for n in range(N)]
                ref = refs if bf else [[refs[n][r] for n in range(N)] for r in range(R)]
            else:
                refs = [[pairs[n * M + m][0] for m in range(M)] for n in range(N)]
                ref = refs if bf else [[[refs[n][m][r] for m in range(M)] for n in range(N)] for r in range(R)]
            hyp = hyps if bf else [[[hyps[n][m][h] for m in range(M)] for n in range(N)] for h in range(H)]
            lp, lp_dtype, lp_classes = self._log_probs(rng, N, M)
            case = {"kind": "mer", "entry": rng.choice(["functional", "module"]),
                    "N": N, "M": M, "R": R, "H": H, "batch_first": bf, "ref_dim": ref_dim,
                    "ref": ref, "hyp": hyp, "log_probs": lp, "lp_dtype": lp_dtype, "lp_classes": lp_classes,
                    "eos": eos, "eos_mode": eos_mode, "include_eos": rng.random() < 0.5,
                    "norm": rng.random() < 0.6,
                    "sub_avg": rng.random() < 0.5, "reduction": rng.choice(["mean", "sum", "none"]),
                    "ins": ins, "del": dl, "sub": sub}
        else:
            N = rng.randint(2, 4) if R * H <= 130 * 130 else rng.randint(1, 2)
            pairs, rels = self._big_pairs(rng, N, R, H, eos_mode, eos, A)
            case = {"kind": kind, "entry": rng.choice(["functional", "module"]),
                    "N": N, "R": R, "H": H, "batch_first": bf,
                    "ref": layout([p[0] for p in pairs], bf, R), "hyp": layout([p[1] for p in pairs], bf, H),
                    "eos": eos, "eos_mode": eos_mode, "include_eos": rng.random() < 0.5,
                    "norm": rng.random() < 0.5, "ins": ins, "del": dl, "sub": sub}
            if kind == "prefix":
                case["exclude_last"] = rng.random() < 0.5
                case["padding"] = rng.choice([-100, -1, 0, 7])
        costs = (case["ins"], case["del"], case["sub"])
        self._call_style(rng, case)
        if (case["ins"], case["del"], case["sub"]) != costs and R * H > 130 * 130:
            case["ins"], case["del"], case["sub"] = "1", "1", "1"   # see above
        case.update(stream="big", big=True, relations=rels)
        return case

    def _wide_case(self, rng, tier, i):
        """the OTHER size measure: many sequences (batch / sample dimension around the powers of two
        and ~1000), short ones"""
        kind = ["scalar", "prefix", "mer"][i % 3]
        if kind == "mer":
            if rng.random() < 0.5:
                N, M = rng.randint(1, 2), rng.choice([16, 17, 33, 64, 65])
            else:
                N, M = rng.choice([33, 64, 65, 129]), rng.randint(2, 3)
            case = self._mer_case(rng, 3, N=N, M=M)
        else:
            N = rng.choice(WIDE_N + [rng.randint(1000, 1100)] * 3) if i % 2 else rng.choice(WIDE_N)
            if i % 12 == 3 or rng.random() < 0.05:
                N = 0           # an empty batch: an empty result of the documented shape
            case = self._er_case(rng, 4, kind=kind, N=N)
        case["stream"] = "wide"
        return case

    def _malformed(self, rng):
        yield {"kind": "malformed", "what": "batch_mismatch", "expect": "RuntimeError"}
        yield {"kind": "malformed", "what": "ref_1d", "expect": "RuntimeError"}
        yield {"kind": "malformed", "what": "hyp_3d", "expect": "RuntimeError"}
        yield {"kind": "malformed", "what": "mer_one_sample", "expect": "RuntimeError"}
        yield {"kind": "malformed", "what": "mer_bad_reduction", "expect": "RuntimeError"}
        yield {"kind": "malformed", "what": "mer_logprobs_shape", "expect": "RuntimeError"}
        yield {"kind": "malformed", "what": "mer_hyp_2d", "expect": "RuntimeError"}
        yield {"kind": "malformed", "what": "module_bad_reduction", "expect": "ValueError"}

    def _shapes_case(self, rng):
        """argument shapes: a well-formed set, usually damaged in one or two places"""
        bf = rng.random() < 0.5
        N, M, R, H = rng.randint(1, 3), rng.randint(1, 3), rng.randint(0, 3), rng.randint(0, 3)
        what = rng.choice(["pair", "pair", "mer", "mer", "mer"])
        case = {"kind": "shapes", "what": what, "batch_first": bf}
        if what == "pair":
            case["fn"] = rng.choice(["error_rate", "prefix_error_rates"])
            shapes = {"ref": [N, R] if bf else [R, N], "hyp": [N, H] if bf else [H, N]}
        else:
            if rng.random() < 0.6:
                M = max(M, 2)
            ref = ([N, R] if bf else [R, N]) if rng.random() < 0.5 else ([N, M, R] if bf else [R, N, M])
            shapes = {"lp": [N, M], "ref": ref, "hyp": [N, M, H] if bf else [H, N, M]}
            case["reduction"] = rng.choice(["mean", "sum", "none", "none", "mean", "max", "Mean", ""])
        for _ in range(rng.choice([0, 0, 1, 1, 1, 2])):
            k = rng.choice(sorted(shapes))
            sh = list(shapes[k])
            r = rng.random()
            if r < 0.3 and len(sh) < 4:
                sh.insert(rng.randint(0, len(sh)), rng.randint(1, 3))
            elif r < 0.55 and len(sh) > 1:
                sh.pop(rng.randrange(len(sh)))
            elif r < 0.7 and len(sh) > 1:
                i, j = rng.sample(range(len(sh)), 2)
                sh[i], sh[j] = sh[j], sh[i]
            else:
                sh[rng.randrange(len(sh))] = rng.randint(1, 4)
            shapes[k] = sh
        case.update(shapes)
        return case

    def cases(self, rng, tier):
        if tier == "quick":
            n_er, n_mer, maxlen, n_sh, n_big, n_wide = 420, 170, 6, 150, 24, 12
        elif tier == "thorough":
            n_er, n_mer, maxlen, n_sh, n_big, n_wide = 5000, 1500, 8, 1500, 150, 40
        else:  # search
            n_er, n_mer, maxlen, n_sh, n_big, n_wide = 6000, 800, 7, 300, 120, 30
        self._mix_i = -1   # schedule of the (ref dtype, hyp dtype) pairs, see _mix_tokens
        yield from self._malformed(rng)
        for _ in range(n_sh):
            yield self._shapes_case(rng)
        # interleave so that a deadline cuts every stream proportionally
        ex = self._exhaustive(rng, tier)
        done_ex = False
        i = 0
        while i < max(n_er, n_mer) or not done_ex:
            if i < n_er:
                yield self._er_case(rng, maxlen if i % 5 else min(maxlen, 4))
            if i < n_mer and i % 1 == 0:
                yield self._mer_case(rng, min(maxlen, 5))
            every = max(n_er // n_big, 1)
            if i % every == 0 and i // every < n_big:
                yield self._big_case(rng, tier, i // every)
            every = max(n_er // n_wide, 1)
            if i % every == every // 2 and i // every < n_wide:
                yield self._wide_case(rng, tier, i // every)
            if not done_ex:
                for _ in range(2 if tier == "quick" else 1):
                    try:
                        yield next(ex)
                    except StopIteration:
                        done_ex = True
                        break
            i += 1

    # ------------------------------------------------------------------ implementation
    @staticmethod
    def _tensor(data, shape, case=None, which="ref"):
        """token tensor with the case's dtype (of ref resp. hyp) and memory layout"""
        import torch
        case = case or {}
        dt = getattr(torch, case.get(which + "_dtype") or case.get("tok_dtype") or "int64")
        t = torch.tensor(data, dtype=dt).reshape(shape) if _numel(shape) else torch.zeros(shape, dtype=dt)
        return _strided(t, (case or {}).get("mem", "contig"))

    @staticmethod
    def _kwargs(case, kw):
        """drop the options that have their documented default when the case says so"""
        if not case.get("omit_defaults"):
            return kw
        dflt = {"eos": None, "include_eos": case["kind"] != "scalar", "norm": True, "batch_first": False,
                "ins_cost": 1.0, "del_cost": 1.0, "sub_cost": 1.0, "padding": -100, "exclude_last": False,
                "sub_avg": True, "reduction": "mean"}
        return {k: v for k, v in kw.items() if not (k in dflt and type(v) is type(dflt[k]) and v == dflt[k])}

    def _er_call(self, case, ref, hyp):
        import pydrobert.torch.functional as Fn
        import pydrobert.torch.modules as Md
        kw = dict(eos=case["eos"], include_eos=case["include_eos"], norm=case["norm"],
                  batch_first=case["batch_first"], ins_cost=float(F(case["ins"])),
                  del_cost=float(F(case["del"])), sub_cost=float(F(case["sub"])))
        if case["kind"] == "prefix":
            kw.update(padding=case["padding"], exclude_last=case["exclude_last"])
        kw = self._kwargs(case, kw)
        kw.update(_warn_kw(case))
        if case["kind"] == "prefix":
            if case["entry"] == "module":
                return Md.PrefixErrorRates(**kw)(ref, hyp)
            return Fn.prefix_error_rates(ref, hyp, **kw)
        if case["entry"] == "module":
            return Md.ErrorRate(**kw)(ref, hyp)
        return Fn.error_rate(ref, hyp, **kw)

    def run_impl(self, case):
        import warnings
        import torch
        with warnings.catch_warnings():
            warnings.simplefilter("ignore")
            if case["kind"] == "malformed":
                return self._run_malformed(case)
            if case["kind"] == "shapes":
                return self._run_shapes(case)
            if case["kind"] == "mer":
                return self._run_mer(case)
            N, R, H, bf = case["N"], case["R"], case["H"], case["batch_first"]
            ref = self._tensor(case["ref"], (N, R) if bf else (R, N), case)
            hyp = self._tensor(case["hyp"], (N, H) if bf else (H, N), case, "hyp")
            before = (ref.clone(), hyp.clone())
            out = self._er_call(case, ref, hyp)
            res = {"shape": list(out.shape), "dtype": str(out.dtype).replace("torch.", ""),
                   "out": _fr(out.tolist()),
                   "args_unchanged": bool(ref.equal(before[0]) and hyp.equal(before[1]))}
            self._eos_wrap_observation(case, res)
            return res

    def _run_mer(self, case):
        import torch
        import pydrobert.torch.functional as Fn
        import pydrobert.torch.modules as Md
        N, M, R, H, bf = case["N"], case["M"], case["R"], case["H"], case["batch_first"]
        if case["ref_dim"] == 2:
            ref = self._tensor(case["ref"], (N, R) if bf else (R, N), case)
        else:
            ref = self._tensor(case["ref"], (N, M, R) if bf else (R, N, M), case)
        hyp = self._tensor(case["hyp"], (N, M, H) if bf else (H, N, M), case, "hyp")
        lp = _strided(torch.tensor([[float(x) if x == "-inf" else float(F(x)) for x in row]
                                    for row in case["log_probs"]],
                                   dtype=getattr(torch, case.get("lp_dtype", "float32"))),
                      case.get("mem", "contig"))
        before = (lp.clone(), ref.clone(), hyp.clone())
        kw = dict(eos=case["eos"], include_eos=case["include_eos"], sub_avg=case["sub_avg"],
                  batch_first=bf, norm=case["norm"], ins_cost=float(F(case["ins"])),
                  del_cost=float(F(case["del"])), sub_cost=float(F(case["sub"])),
                  reduction=case["reduction"])
        ckw = self._kwargs(case, kw)
        if case["entry"] == "module":
            out = Md.MinimumErrorRateLoss(**ckw)(lp, ref, hyp, **_warn_kw(case))
        else:
            out = Fn.minimum_error_rate_loss(lp, ref, hyp, **_warn_kw(case), **ckw)
        unchanged = bool(lp.equal(before[0]) and ref.equal(before[1]) and hyp.equal(before[2]))
        # the error rate of every documented pair, one isolated pair per call
        ers = []
        for n in range(N):
            row = []
            for m in range(M):
                rs, hs = _mer_pair(case, n, m)
                e = Fn.error_rate(self._tensor(rs, (len(rs), 1)), self._tensor(hs, (len(hs), 1)),
                                  eos=case["eos"], include_eos=case["include_eos"], norm=case["norm"],
                                  ins_cost=kw["ins_cost"], del_cost=kw["del_cost"], sub_cost=kw["sub_cost"],
                                  warn=False)
                row.append(frac_str(e.item()))
            ers.append(row)
        res = {"shape": list(out.shape), "dtype": str(out.dtype).replace("torch.", ""),
               "out": _fr(out.tolist()), "pair_ers": ers, "args_unchanged": unchanged}
        self._eos_wrap_observation(case, res)
        return res

    def _eos_wrap_observation(self, case, res):
        """Only when the eos lies outside the range of a token tensor's dtype: the result of the call on
        the int64 batch in which every transcript is cut where its OWN tensor holds an id CONGRUENT to the
        eos modulo 2^bits of that tensor's dtype (res['eos_wrap_out']; the tokens themselves are kept, the
        cut is expressed with a fresh padding id as eos). It is not an expectation: it is the specific
        wrong behaviour of the finding C02.eos_outside_token_dtype_wraps (comparing a narrow integer
        tensor with a python scalar wraps the scalar), needed to recognise exactly that finding."""
        import torch
        eos = case.get("eos")
        if eos is None:
            return
        wrapped, hit = {}, False
        for which in ("ref", "hyp"):
            lo, hi, bits = DTYPES[case.get(which + "_dtype") or case.get("tok_dtype") or "int64"]
            wrapped[which] = w = (eos - lo) % 2 ** bits + lo
            hit = hit or (w != eos and w in _flat(case[which]))
        if not hit:
            return
        used = set(_flat(case["ref"])) | set(_flat(case["hyp"])) | {eos}
        fresh = next(v for v in range(2 ** 62, 2 ** 62 + len(used) + 2) if v not in used)
        alt = dict(case, eos=fresh, include_eos=False, ref_dtype="int64", hyp_dtype="int64", tok_dtype="int64")
        changed = False
        for which in ("ref", "hyp"):
            if not _flat(case[which]):
                continue
            t = torch.tensor(case[which], dtype=torch.long)
            ax = t.dim() - 1 if case["batch_first"] else 0
            L = t.shape[ax]
            is_eos = t == wrapped[which]
            pos = torch.arange(L).reshape([L if d == ax else 1 for d in range(t.dim())])
            first = torch.where(is_eos, pos, torch.tensor(L)).amin(ax, keepdim=True)
            cut = first + (1 if case["include_eos"] else 0)
            alt[which] = torch.where(pos >= cut, torch.tensor(fresh), t).tolist()
            true_first = torch.where(t == eos, pos, torch.tensor(L)).amin(ax, keepdim=True)
            changed = changed or bool((first != true_first).any()
                                      and (torch.minimum(cut, torch.tensor(L))
                                           != torch.minimum(true_first + (1 if case["include_eos"] else 0),
                                                            torch.tensor(L))).any())
        if not changed:
            return   # the wrapped eos cuts no transcript anywhere else than the true eos: nothing to recognise
        try:
            res["eos_wrap_out"] = self.run_impl(alt)["out"]
        except Exception as e:   # noqa: BLE001 - an observation only
            res["eos_wrap_out"] = "error: " + type(e).__name__

    def _eos_wrap_hit(self, case, impl, model):
        """the implementation's result differs from the model's AND is exactly the result with the ids
        congruent to an out-of-range eos taken for the eos"""
        return (isinstance(impl, dict) and "eos_wrap_out" in impl and model is not None
                and impl.get("out") == impl["eos_wrap_out"] and bool(self._differences(case, impl, model)))

    def _softmax(self, case):
        """softmax weights of the case's log_probs, computed independently of the library and of
        torch (see softmax_oracle); memoised per case object"""
        key = repr(case["log_probs"])
        if getattr(self, "_sm_key", None) != key:
            self._sm_key = key
            self._sm_val = [[frac_str(v) for v in softmax_oracle(row)] for row in case["log_probs"]]
        return self._sm_val

    def _softmax_torch(self, case):
        """torch's own softmax on the same values (only to measure the trusted primitive against
        the oracle; statistics in the evidence)"""
        import torch
        lp = torch.tensor([[float(x) if x == "-inf" else float(F(x)) for x in row]
                           for row in case["log_probs"]],
                          dtype=getattr(torch, case.get("lp_dtype", "float32")))
        return torch.nn.functional.softmax(lp, 1).tolist()

    def _run_shapes(self, case):
        import torch
        import pydrobert.torch.functional as Fn
        z = lambda sh: torch.zeros(tuple(sh), dtype=torch.long)
        bf = case["batch_first"]
        if case["what"] == "pair":
            out = getattr(Fn, case["fn"])(z(case["ref"]), z(case["hyp"]), batch_first=bf, warn=False)
        else:
            out = Fn.minimum_error_rate_loss(torch.zeros(tuple(case["lp"])), z(case["ref"]), z(case["hyp"]),
                                             batch_first=bf, reduction=case["reduction"], warn=False)
        return {"accepted": True, "shape": list(out.shape)}

    def _run_malformed(self, case):
        import torch
        import pydrobert.torch.functional as Fn
        import pydrobert.torch.modules as Md
        w = case["what"]
        z = lambda *s: torch.zeros(s, dtype=torch.long)
        if w == "batch_mismatch":
            Fn.error_rate(z(3, 2), z(3, 3), warn=False)
        elif w == "ref_1d":
            Fn.error_rate(z(3), z(3, 1), warn=False)
        elif w == "hyp_3d":
            Fn.prefix_error_rates(z(3, 1), z(3, 1, 1), warn=False)
        elif w == "mer_one_sample":
            Fn.minimum_error_rate_loss(torch.zeros(2, 1), z(3, 2), z(3, 2, 1), warn=False)
        elif w == "mer_bad_reduction":
            Fn.minimum_error_rate_loss(torch.zeros(2, 2), z(3, 2), z(3, 2, 2), reduction="max", warn=False)
        elif w == "mer_logprobs_shape":
            Fn.minimum_error_rate_loss(torch.zeros(2, 3), z(3, 2), z(3, 2, 2), warn=False)
        elif w == "mer_hyp_2d":
            Fn.minimum_error_rate_loss(torch.zeros(2, 2), z(3, 2), z(3, 2), warn=False)
        elif w == "module_bad_reduction":
            Md.MinimumErrorRateLoss(reduction="max")
        return {"out": "no error"}

    # ------------------------------------------------------------------ model
    def model_request(self, case):
        if case["kind"] == "malformed":
            return None
        if case["kind"] == "shapes":
            return {"op": "c02.shapes", "case": {k: case[k] for k in ("what", "batch_first", "ref", "hyp", "lp",
                                                                       "reduction") if k in case}}
        base = {k: case[k] for k in ("ref", "hyp", "N", "batch_first", "eos", "include_eos", "norm",
                                     "ins", "del", "sub")}
        base["brute_max"] = 4 if case.get("stream") == "exhaustive" else 3
        if case.get("big"):
            base["big"] = True
        if case["kind"] == "mer":
            base.update(M=case["M"], ref_dim=case["ref_dim"], sub_avg=case["sub_avg"],
                        reduction=case["reduction"], w=self._softmax(case))
            return {"op": "c02.mer", "case": base}
        base["kind"] = case["kind"]
        if case["kind"] == "prefix":
            base.update(exclude_last=case["exclude_last"], padding=case["padding"])
        return {"op": "c02.er", "case": base}

    # ------------------------------------------------------------------ comparison
    def compare(self, case, impl, model):
        if case["kind"] == "malformed":
            return []
        if case["kind"] == "shapes":
            if model["accepted"] != ("error" not in impl):
                return [f"model {'accepts' if model['accepted'] else 'rejects'} the shapes, implementation: "
                        f"{impl.get('error', 'no error')}"]
            return []
        if "error" in impl:
            return [f"implementation raised {impl['error']}: {impl.get('message')}"]
        if self._eos_wrap_hit(case, impl, model):
            return []   # reported by the predicate under its own signature
        return self._differences(case, impl, model)

    def _differences(self, case, impl, model):
        out = []
        if case["kind"] == "mer":
            a, b = _flat(impl["out"]), _flat(model["model"])
            if len(a) != len(b):
                return [f"loss shape differs: impl {impl['shape']} model has {len(b)} entries"]
            atol = _mer_atol(case, model["spec"])
            for i, (x, y) in enumerate(zip(a, b)):
                if not _close(x, y, atol=atol):
                    out.append(f"loss[{i}] impl={_show(x)} model={_show(y)}")
            return out[:4]
        exp = _map(model["model"], lambda q: frac_str(f32_quot(q)))
        if impl["out"] != exp:
            out.append(f"impl={impl['out']} model(f32)={exp}")
        return out

    # ------------------------------------------------------------------ the property
    def predicate(self, case, impl, model):
        if case["kind"] == "malformed":
            got = impl.get("error") if isinstance(impl, dict) else None
            if got != case["expect"]:
                return [(f"malformed input '{case['what']}': expected {case['expect']}, got "
                         f"{got or impl.get('out')}", None)]
            return []
        if case["kind"] == "shapes":
            return self._shapes_predicate(case, impl, model)
        if "error" in impl:
            sig = "C02.raises." + str(impl["error"])
            if (case["kind"] == "mer" and case.get("mem") in ("slice", "step") and impl["error"] == "RuntimeError"
                    and "view size is not compatible" in str(impl.get("message"))):
                sig = "C02.mer.strided_args_raise"   # repaired by fixes/C02-mer-strided-inputs.diff
            return [(f"{case['kind']} raised {impl['error']}: {impl.get('message')}", sig)]
        if model is None:
            return []
        if self._eos_wrap_hit(case, impl, model):
            return [(f"eos {case['eos']} lies outside the range of a token tensor's dtype (ref "
                     f"{case.get('ref_dtype')}, hyp {case.get('hyp_dtype')}): ids of that tensor congruent to it "
                     f"modulo 2^bits were taken for the eos; result {impl['out']}, expected "
                     f"{model['model']}", "C02.eos_outside_token_dtype_wraps")]
        equal = F(case["ins"]) == F(case["del"]) == F(case["sub"])
        fails = []
        if impl.get("args_unchanged") is False:
            fails.append(("the call modified one of its tensor arguments in place", "C02.args_modified"))

        def check_value(where, v, info, norm_mode, k=None):
            """v: implementation's value (Fraction); info: oracle of the pair."""
            rl, hl = info["ref_len"], info["hyp_len"]
            lo, hi = (F(info["lev_unit"]),) * 2 if equal else (F(info["min_edits"]), F(info["max_edits"]))
            st = self.stats
            st["values_checked"] += 1
            st["brute_force_oracle_values"] += bool(info.get("brute"))
            if lo < hi and not (case["norm"] and rl == 0):
                st["tie_values(min<max)"] += 1
                cnt = v * rl if case["norm"] else v
                near = lambda c: abs(cnt - c) < Fraction(1, 1000)
                st["impl_at_min"] += near(lo)
                st["impl_at_max"] += near(hi)
                st["impl_strictly_between"] += (lo + Fraction(1, 2) < cnt < hi - Fraction(1, 2))
            if case["norm"] and rl == 0:
                want = Fraction(1 if hl > 0 else 0)
                if v != want:
                    fails.append((f"{where}: empty reference, hypothesis length {hl}: expected {want}, got {v}",
                                  "C02.empty_ref_convention"))
                return
            if case["norm"]:
                cands = [c for c in range(int(lo), int(hi) + 1) if f32_quot(Fraction(c, rl)) == v]
                if not cands:
                    fails.append((f"{where}: {float(v)!r} is not count/|ref| (|ref|={rl}) for any count in "
                                  f"[{lo},{hi}]" + (" (= plain Levenshtein, equal costs)" if equal else ""),
                                  "C02.equal_costs" if equal else "C02.bounds"))
                return
            if v.denominator != 1 or not (lo <= v <= hi):
                fails.append((f"{where}: count {v} not in [{lo},{hi}]"
                              + (" (= plain Levenshtein, equal costs)" if equal else
                                 " (fewest/most edits among minimum-cost alignments)"),
                              "C02.equal_costs" if equal else "C02.bounds"))

        spec = model["spec"]
        if case["kind"] == "scalar":
            vals = impl["out"]
            if impl["shape"] != [case["N"]]:
                return [(f"shape {impl['shape']} != [{case['N']}]", "C02.shape")]
            for n, v in enumerate(vals):
                check_value(f"column {n}", F(v), spec[n]["pair"], "scalar")
        elif case["kind"] == "prefix":
            N, H, bf = case["N"], case["H"], case["batch_first"]
            rows = H + (0 if case["exclude_last"] else 1)
            want_shape = [N, rows] if bf else [rows, N]
            if impl["shape"] != want_shape:
                return [(f"shape {impl['shape']} != {want_shape}", "C02.shape")]
            for n in range(N):
                col = [F(impl["out"][n][k]) if bf else F(impl["out"][k][n]) for k in range(rows)]
                pref = spec[n]["prefixes"]
                hl = len(spec[n]["hyp_cut"])
                reported = hl + (0 if case["exclude_last"] else 1)
                for k in range(rows):
                    if k >= reported:
                        if col[k] != case["padding"]:
                            fails.append((f"column {n} prefix {k}: expected padding {case['padding']} past the "
                                          f"hypothesis (length {hl}), got {col[k]}", "C02.prefix_padding"))
                        continue
                    info = pref[k]
                    if case["norm"] and info["ref_len"] == 0:
                        want = Fraction(1 if k > 0 else 0)
                        if col[k] != want:
                            fails.append((f"column {n} prefix {k}: empty reference: expected {want}, got {col[k]}",
                                          "C02.empty_ref_convention"))
                        continue
                    check_value(f"column {n} prefix {k}", col[k], info, "prefix", k)
        else:  # mer
            N, M = case["N"], case["M"]
            for n in range(N):
                for m in range(M):
                    check_value(f"pair ({n},{m}) error rate", F(impl["pair_ers"][n][m]),
                                spec[n][m]["pair"], "scalar")
            w = [[F(x) for x in row] for row in self._softmax(case)]
            tw = self._softmax_torch(case)
            st = self.stats
            st["softmax_rows_checked"] = st.get("softmax_rows_checked", 0) + N
            dev = max(abs(float(w[n][m]) - tw[n][m]) for n in range(N) for m in range(M))
            st["torch_softmax_max_abs_dev_from_oracle"] = max(st.get("torch_softmax_max_abs_dev_from_oracle", 0.0), dev)
            er = [[F(x) for x in row] for row in impl["pair_ers"]]
            atol = _mer_atol(case, spec)
            el = []
            for n in range(N):
                mu = sum(er[n]) / M if case["sub_avg"] else 0
                el.append([w[n][m] * (er[n][m] - mu) for m in range(M)])
            if case["reduction"] == "none":
                if impl["shape"] != [N, M]:
                    return fails + [(f"loss shape {impl['shape']} != [{N},{M}]", "C02.mer.shape")]
                for n in range(N):
                    for m in range(M):
                        if not _close(impl["out"][n][m], el[n][m], atol=atol):
                            fails.append((f"loss[{n}][{m}]={_show(impl['out'][n][m])} != softmax*(er-mean)="
                                          f"{float(el[n][m])!r} (log_probs row {n}: "
                                          f"{[_show(x) for x in case['log_probs'][n]]}, oracle softmax "
                                          f"{[float(x) for x in w[n]]})", "C02.mer.value"))
            else:
                tot = sum(sum(r) for r in el)
                if case["reduction"] == "mean":
                    tot = tot / (N * M)
                if impl["shape"] != [] or not _close(impl["out"], tot, atol=atol):
                    fails.append((f"loss={_show(impl['out'])} != {case['reduction']} of softmax*(er-mean)="
                                  f"{float(tot)!r} (log_probs {[[_show(x) for x in r] for r in case['log_probs']]})",
                                  "C02.mer.value"))
        return fails[:6]

    def _shapes_predicate(self, case, impl, model):
        """documented behaviour: RuntimeError exactly for ill-formed argument shapes (oracle: python
        re-statement of C02_pair_shapes / C02_mer_shapes, independent of the driver's answer)"""
        bf = case["batch_first"]
        ref, hyp = case["ref"], case["hyp"]
        want_shape = None
        if case["what"] == "pair":
            ok = len(ref) == 2 and len(hyp) == 2 and ref[0 if bf else 1] == hyp[0 if bf else 1]
            if ok:
                N, H = (hyp[0], hyp[1]) if bf else (hyp[1], hyp[0])
                want_shape = [N] if case["fn"] == "error_rate" else ([N, H + 1] if bf else [H + 1, N])
        else:
            lp = case["lp"]
            ok = len(lp) == 2 and len(hyp) == 3
            if ok:
                N, M = (hyp[0], hyp[1]) if bf else (hyp[1], hyp[2])
                ok = lp == [N, M] and M >= 2 and case["reduction"] in ("mean", "sum", "none") and (
                    (len(ref) == 2 and ref[0 if bf else 1] == N)
                    or (len(ref) == 3 and ((ref[0], ref[1]) if bf else (ref[1], ref[2])) == (N, M)))
                if ok:
                    want_shape = [N, M] if case["reduction"] == "none" else []
        fails = []
        if model is not None and model["accepted"] != ok:
            raise AssertionError(f"driver and python oracle disagree on {case}")
        if ok:
            if "error" in impl:
                fails.append((f"well-formed arguments {case} raised {impl['error']}: {impl.get('message')}",
                              "C02.args.rejected"))
            elif impl["shape"] != want_shape:
                fails.append((f"result shape {impl['shape']} != {want_shape} for {case}", "C02.shape"))
        else:
            if impl.get("error") != "RuntimeError":
                fails.append((f"ill-formed arguments {case}: expected RuntimeError, got "
                              f"{impl.get('error', 'no error')}", "C02.args.accepted"))
        return fails

    # ------------------------------------------------------------------ evidence helpers
    def _pairs(self, case):
        if case["kind"] == "mer":
            return [tuple(map(tuple, (py_cut(r, case["eos"], case["include_eos"]),
                                      py_cut(h, case["eos"], case["include_eos"]))))
                    for n in range(case["N"]) for m in range(case["M"]) for r, h in [_mer_pair(case, n, m)]]
        rc = columns(case["ref"], case["batch_first"], case["N"]) if case["R"] else [[]] * case["N"]
        hc = columns(case["hyp"], case["batch_first"], case["N"]) if case["H"] else [[]] * case["N"]
        return [(tuple(py_cut(r, case["eos"], case["include_eos"])),
                 tuple(py_cut(h, case["eos"], case["include_eos"]))) for r, h in zip(rc, hc)]

    def nontrivial(self, case, impl):
        if case["kind"] in ("malformed", "shapes"):
            return False
        return any(r and h and r != h for r, h in self._pairs(case))

    def key(self, case):
        if case["kind"] == "malformed":
            return "malformed:" + case["what"]
        if case["kind"] == "shapes":
            return "shapes:" + repr(sorted(case.items()))
        opt = tuple(case.get(k) for k in ("kind", "include_eos", "norm", "batch_first", "exclude_last",
                                          "sub_avg", "reduction", "ref_dim", "entry", "mem", "lp_dtype",
                                          "ref_dtype", "hyp_dtype"))
        opt += (tuple(case.get("lp_classes", ())),)
        return repr((sorted(set(self._pairs(case))), case["ins"], case["del"], case["sub"], opt))

    def tags(self, case, impl):
        if case["kind"] == "malformed":
            return ["malformed:" + case["what"]]
        if case["kind"] == "shapes":
            return ["kind=shapes", "shapes:" + case["what"],
                    "shapes:" + ("rejected" if isinstance(impl, dict) and "error" in impl else "accepted")]
        equal = F(case["ins"]) == F(case["del"]) == F(case["sub"])
        t = ["kind=" + case["kind"], "entry=" + case.get("entry", "functional"),
             "costs=" + ("equal(shortcut)" if equal else
                         "ins+del=sub" if F(case["ins"]) + F(case["del"]) == F(case["sub"]) else "unequal"),
             "eos=" + (case["eos_mode"] if "eos_mode" in case else
                       "unset" if case["eos"] is None else "absent" if case["eos"] == ABSENT_EOS else "in"),
             f"include_eos={case['include_eos']}", f"norm={case['norm']}", f"batch_first={case['batch_first']}",
             "R=" + _size_class(case["R"]), "H=" + _size_class(case["H"]), "N=" + _size_class(case["N"])]
        if case["kind"] == "prefix":
            t.append(f"exclude_last={case['exclude_last']}")
        t += ["warn=" + case.get("warn", "false"), "token_ids=" + _relabel_class(case.get("tok_relabel")),
              "mem=" + case.get("mem", "contig"),
              f"omit_defaults={bool(case.get('omit_defaults'))}"]
        t += _dtype_tags(case)
        if case["kind"] == "mer":
            t += ["M=" + _size_class(case["M"]), f"ref_dim={case['ref_dim']}", f"sub_avg={case['sub_avg']}",
                  "reduction=" + case["reduction"], "lp_dtype=" + case.get("lp_dtype", "float32")]
            t += sorted({"log_probs=" + c for c in case.get("lp_classes", ["ordinary"])})
            fin = [abs(float(F(x))) for row in case["log_probs"] for x in row if x != "-inf"]
            big = max(fin) if fin else 0
            t.append("log_probs_magnitude=" + ("<=10" if big <= 10 else "<=88" if big <= 88 else
                                               "<=745" if big <= 745 else ">745"))
        if case.get("stream"):
            t.append("stream=" + case["stream"])
        for rel in case.get("relations", ()):
            prof, how = rel.split("/")
            t += ["big:ref=" + prof, "big:hyp=" + how]
        t = sorted(set(t), key=t.index)
        prs = self._pairs(case)
        if any(not r for r, _ in prs):
            t.append("has_empty_ref")
        if any(not h for _, h in prs):
            t.append("has_empty_hyp")
        return t

    def shrink(self, case):
        if case["kind"] in ("malformed", "mer", "shapes"):
            if case["kind"] == "mer":
                for k, v in (("reduction", "none"), ("sub_avg", False), ("norm", False), ("entry", "functional"),
                             ("mem", "contig"), ("hyp_dtype", "int64"), ("ref_dtype", "int64"),
                             ("omit_defaults", False), ("warn", "false"), ("lp_dtype", "float32")):
                    if case.get(k, v) != v:
                        c = dict(case)
                        c[k] = v
                        if k == "lp_dtype":   # the scores must stay exact values of the dtype
                            import numpy as np
                            c["log_probs"] = [[x if x == "-inf" else frac_str(float(np.float32(float(F(x)))))
                                               for x in row] for row in case["log_probs"]]
                        yield c
                N, bf = case["N"], case["batch_first"]
                if N > 1:   # drop one batch element
                    for n in range(N):
                        c = dict(case)
                        c["N"] = N - 1
                        drop = (lambda t: t[:n] + t[n + 1:]) if bf else \
                            (lambda t: [pl[:n] + pl[n + 1:] for pl in t])
                        c["ref"], c["hyp"] = drop(case["ref"]), drop(case["hyp"])
                        c["log_probs"] = case["log_probs"][:n] + case["log_probs"][n + 1:]
                        if "lp_classes" in case:
                            c["lp_classes"] = case["lp_classes"][:n] + case["lp_classes"][n + 1:]
                        yield c
            return
        N, R, H, bf = case["N"], case["R"], case["H"], case["batch_first"]
        rc = columns(case["ref"], bf, N) if R else [[] for _ in range(N)]
        hc = columns(case["hyp"], bf, N) if H else [[] for _ in range(N)]

        def rebuild(rc, hc, **kw):
            c = dict(case)
            c.update(N=len(rc), R=len(rc[0]) if rc else 0, H=len(hc[0]) if hc else 0)
            c.update(kw)
            c["ref"] = layout(rc, c["batch_first"], c["R"])
            c["hyp"] = layout(hc, c["batch_first"], c["H"])
            return c
        if N > 1:
            for n in range(N):
                yield rebuild(rc[:n] + rc[n + 1:], hc[:n] + hc[n + 1:])
        if R > 8 and H > 8:   # long sequences: halve both first
            yield rebuild([c[:R // 2] for c in rc], [c[:H // 2] for c in hc])
            yield rebuild([c[R // 2:] for c in rc], [c[H // 2:] for c in hc])
        if R > 0:
            yield rebuild([c[:-1] for c in rc], hc)
            yield rebuild([c[1:] for c in rc], hc)
        if H > 0:
            yield rebuild(rc, [c[:-1] for c in hc])
            yield rebuild(rc, [c[1:] for c in hc])
        if isinstance(case.get("tok_relabel"), int):
            c = rebuild(rc, hc)
            _relabel(c, -case["tok_relabel"])
            c["tok_relabel"] = None
            yield c
        for k, v in (("entry", "functional"), ("batch_first", False), ("norm", False), ("include_eos", False),
                     ("exclude_last", False), ("mem", "contig"), ("hyp_dtype", "int64"),
                     ("ref_dtype", "int64"), ("omit_defaults", False), ("warn", "false")):
            if k in case and case[k] != v:
                yield rebuild(rc, hc, **{k: v})
        if case["eos"] is not None and all(case["eos"] not in c for c in rc + hc):
            yield rebuild(rc, hc, eos=None)


def _warn_kw(case):
    w = case.get("warn", "false")
    return {} if w == "default" else {"warn": w == "true"}


def _relabel(case, how):
    """apply an injective relabelling of the token ids to ref, hyp and eos (in place)"""
    f = (lambda t: -1 - t) if how == "neg" else (lambda t: how + t)
    case["ref"], case["hyp"] = _map(case["ref"], f), _map(case["hyp"], f)
    if case["eos"] is not None:
        case["eos"] = f(case["eos"])
    case["tok_relabel"] = how


def _dtype_tags(case):
    rd = case.get("ref_dtype") or case.get("tok_dtype") or "int64"
    hd = case.get("hyp_dtype") or case.get("tok_dtype") or "int64"
    (rlo, rhi, rb), (hlo, hhi, hb) = DTYPES[rd], DTYPES[hd]
    rel = "same" if rd == hd else "ref_narrower" if rb < hb else "ref_wider" if rb > hb else "same_width"
    t = ["ref_dtype=" + rd, "hyp_dtype=" + hd, "dtypes=" + rel, f"dtype_pair={rd}/{hd}",
         "alias=" + case.get("alias", "none")]
    if case.get("alias_mod"):
        t.append(f"alias_mod=2^{case['alias_mod']}")
    if case.get("alias", "none") != "none":
        t.append(f"alias:{rel}:2^{case['alias_mod']}")
    eos = case.get("eos")
    if eos is not None:
        fr, fh = rlo <= eos <= rhi, hlo <= eos <= hhi
        t.append("eos_fits=" + ("both" if fr and fh else "ref_only" if fr else "hyp_only" if fh else "neither"))
    return t


def _relabel_class(how):
    if how is None:
        return "small"
    if how == "mixed":
        return "residue classes mod 2^8/16/32 (see alias)"
    if how == "neg":
        return "negative"
    for name, lim in (("~2^8", 2 ** 9), ("~2^11", 2 ** 12), ("~2^15/16", 2 ** 17), ("~2^24", 2 ** 25),
                      ("~2^31/32", 2 ** 33), ("~2^53", 2 ** 54)):
        if how < lim:
            return name
    return "~2^63"


def _size_class(n):
    """sizes up to 8 literally; beyond, the classes around the powers of two"""
    if n <= 8:
        return str(n)
    for e in (64, 128, 256):
        if e - 1 <= n <= e + 2:
            return str(n)
    for lo, hi in ((9, 62), (67, 126), (131, 199), (200, 254), (259, 999)):
        if lo <= n <= hi:
            return f"{lo}..{hi}"
    return "1000+"


def _numel(shape):
    n = 1
    for s in shape:
        n *= s
    return n


def _fr(x):
    if isinstance(x, list):
        return [_fr(v) for v in x]
    return frac_str(x)


def _map(x, f):
    if isinstance(x, list):
        return [_map(v, f) for v in x]
    return f(x)


def _flat(x):
    if isinstance(x, list):
        return [v for y in x for v in _flat(y)]
    return [x]


def _num(x):
    """'n/d' | number -> Fraction; 'nan' / 'inf' / '-inf' -> None (not a finite number)"""
    if isinstance(x, str) and x in ("nan", "inf", "-inf"):
        return None
    return Fraction(x)


def _close(a, b, rtol=1e-5, atol=5e-6):
    a, b = _num(a), _num(b)
    if a is None or b is None:
        return False
    return abs(a - b) <= atol + rtol * max(abs(a), abs(b))


def _mer_atol(case, spec):
    """absolute tolerance of the loss comparison. The implementation forms er - mean(er) in float32:
    the rounding of mean(er) (half an ulp of the LARGEST error rate) survives the cancellation, so the
    absolute error grows with the magnitude of the error rates (edit counts of long un-normalised
    pairs), not with the magnitude of the result. 5e-6 on the original domain (error rates <= 6 there:
    2^-22 * 6 * 3 < 5e-6, nothing is loosened), 2^-22 * (largest possible error rate of the case, from
    the ORACLE: most edits among optimal alignments / reference length) beyond; a 'sum' adds N rows,
    each weighted by softmax weights that sum to 1."""
    big = Fraction(0)
    for row in spec:
        for cell in row:
            info = cell["pair"]
            e = Fraction(max(info["max_edits"], int(Fraction(info["lev_unit"]))))
            if case["norm"]:
                e = e / info["ref_len"] if info["ref_len"] else Fraction(1)
            big = max(big, e)
    rows = case["N"] if case["reduction"] == "sum" else 1
    return max(5e-6, float(big) * rows / 2 ** 22)


def _show(x):
    v = _num(x)
    return x if v is None else repr(float(v))


def softmax_oracle(row):
    """Softmax of one row of scores given as exact strings ('n/d', or '-inf' = probability 0), without
    torch and without floats: the maximum is subtracted in exact rational arithmetic (so magnitude
    never matters, only differences), exp is python's correctly-rounded decimal exp at 60 digits,
    the normalised weights are rounded to 40 decimal places. -> list of Fractions."""
    from decimal import Decimal, localcontext
    xs = [None if x == "-inf" else Fraction(x) for x in row]
    mx = max(x for x in xs if x is not None)
    with localcontext() as ctx:
        ctx.prec = 60
        es = []
        for x in xs:
            if x is None:
                es.append(Decimal(0))
            else:
                d = x - mx
                es.append((Decimal(d.numerator) / Decimal(d.denominator)).exp())
        z = sum(es)
        ws = [(e / z).quantize(Decimal(1).scaleb(-40)) for e in es]
    return [Fraction(w) for w in ws]


def _strided(t, mode):
    """the same tensor (shape, dtype, values) with another memory layout"""
    import torch
    if mode == "contig" or t.dim() == 0:
        return t
    rev = list(reversed(range(t.dim())))
    if mode == "transposed":      # storage laid out with the dimensions reversed
        return t.permute(*rev).contiguous().permute(*rev)
    fill = 1 if not t.is_floating_point() else 0.5
    if mode == "slice":           # interior of a buffer that is wider by one on every side
        big = torch.full([n + 2 for n in t.shape], fill, dtype=t.dtype)
        idx = tuple(slice(1, n + 1) for n in t.shape)
        big[idx] = t
        return big[idx]
    if mode == "step":            # every other element of a buffer twice the size
        big = torch.full([2 * n for n in t.shape], fill, dtype=t.dtype)
        idx = tuple(slice(0, 2 * n, 2) for n in t.shape)
        big[idx] = t
        return big[idx]
    raise ValueError(mode)


def _mer_pair(case, n, m):
    """(ref sequence, hyp sequence) the documentation pairs for sample m of batch element n"""
    bf = case["batch_first"]
    if case["ref_dim"] == 2:
        rs = case["ref"][n] if bf else [row[n] for row in case["ref"]]
    else:
        rs = case["ref"][n][m] if bf else [pl[n][m] for pl in case["ref"]]
    hs = case["hyp"][n][m] if bf else [pl[n][m] for pl in case["hyp"]]
    return list(rs), list(hs)


CHECK = C02()
