"""Directory level of C10: `chunk-torch-spect-data-dir` on small well-formed directories.

A case carries the whole input directory (utterances with frame-identifying features, alignments,
token segments) and one configuration. `run_dir` writes it to a temporary directory, runs the
command with `--num-workers 0` in-process, reads the output directory back and runs the library's
own validator on it. The Lean driver (`c10.dir`) supplies the windows the policy prescribes for
each utterance and the specified token chunk of every window.
"""
import os
import shutil
import tempfile
import warnings

F = 3
PAD = -1.0


def gen_cases(rng, n):
    for i in range(n):
        nutt = rng.randint(1, 4)
        utts = []
        for u in range(nutt):
            T = rng.randint(1, 9)
            ali = [rng.randint(0, 2)]
            for _ in range(T - 1):
                ali.append(ali[-1] if rng.random() < 0.55 else rng.randint(0, 2))
            R = rng.randint(0, 4)
            ref = []
            for _ in range(R):
                if rng.random() < 0.15:
                    ref.append([rng.randint(0, 9), -1, -1])
                else:
                    s = rng.randint(0, T)
                    e = rng.randint(s, T)
                    ref.append([rng.randint(0, 9), s, e])
            if rng.random() < 0.6:
                ref.sort(key=lambda t: (t[1], t[2]))
            utts.append({"id": f"u{u}", "T": T, "ali": ali, "ref": ref})
        yield {"kind": "dir", "policy": rng.choice(["fixed", "ali", "ref"]),
               "wt": rng.choice(["symmetric", "causal", "future"]), "lobe": rng.randint(0, 2),
               "valid": rng.random() < 0.6, "partial": rng.random() < 0.35, "retain": rng.random() < 0.3,
               "utts": utts}


def feat_value(u, t, f):
    return float(1000 * (u + 1) + 10 * t + f)


def write_dir(case, root):
    import torch
    for sub in ("feat", "ali", "ref"):
        os.makedirs(os.path.join(root, sub))
    for ui, u in enumerate(case["utts"]):
        T = u["T"]
        feat = torch.tensor([[feat_value(ui, t, f) for f in range(F)] for t in range(T)],
                            dtype=torch.float).reshape(T, F)
        torch.save(feat, os.path.join(root, "feat", u["id"] + ".pt"))
        torch.save(torch.tensor(u["ali"], dtype=torch.long), os.path.join(root, "ali", u["id"] + ".pt"))
        torch.save(torch.tensor(u["ref"], dtype=torch.long).reshape(len(u["ref"]), 3),
                   os.path.join(root, "ref", u["id"] + ".pt"))


def validate(root):
    from pydrobert.torch import data
    try:
        with warnings.catch_warnings():
            warnings.simplefilter("ignore")
            ds = data.SpectDataSet(root, suppress_alis=False, tokens_only=False)
            data.validate_spect_data_set(ds)
        return "ok"
    except Exception as e:
        return f"{type(e).__name__}: {str(e)[:160]}"


def run_dir(case):
    import torch
    from pydrobert.torch import command_line
    tmp = tempfile.mkdtemp(prefix="c10dir_")
    try:
        src, out = os.path.join(tmp, "in"), os.path.join(tmp, "out")
        write_dir(case, src)
        args = [src, out, "--policy", case["policy"], "--window-type", case["wt"], "--lobe-size", str(case["lobe"]),
                "--num-workers", "0", "--quiet", "--format-utt", "{utt_id}.{idx}.{start}.{end}"]
        if not case["valid"]:
            args += ["--pad-mode", "constant", "--pad-constant", str(PAD)]
        if case["partial"]:
            args.append("--partial-tokens")
        if case["retain"]:
            args.append("--retain-token-boundaries")
        with warnings.catch_warnings():
            warnings.simplefilter("ignore")
            rc = command_line.chunk_torch_spect_data_dir(args)
        obs = {"rc": rc if rc is None else int(rc), "listing": {}, "utts": {}}
        for sub in ("feat", "ali", "ref"):
            d = os.path.join(out, sub)
            obs["listing"][sub] = sorted(os.listdir(d)) if os.path.isdir(d) else None
        for name in obs["listing"]["feat"] or []:
            uid, idx, start, end = name[:-3].rsplit(".", 3)
            ent = {"idx": int(idx), "start": int(start), "end": int(end)}
            feat = torch.load(os.path.join(out, "feat", name))
            ent["feat_shape"] = list(feat.shape)
            ent["feat"] = [[float(x) for x in row] for row in feat.tolist()]
            ent["feat_dtype"] = str(feat.dtype)
            p = os.path.join(out, "ali", name)
            if os.path.exists(p):
                a = torch.load(p)
                ent["ali"] = a.tolist()
                ent["ali_dtype"] = str(a.dtype)
            p = os.path.join(out, "ref", name)
            if os.path.exists(p):
                r = torch.load(p)
                ent["ref"] = r.tolist()
                ent["ref_shape"] = list(r.shape)
            obs["utts"].setdefault(uid, []).append(ent)
        for uid in obs["utts"]:
            obs["utts"][uid].sort(key=lambda e: e["idx"])
        nchunks = len(obs["listing"]["feat"] or [])
        if nchunks:
            obs["valid_raw"] = validate(out)
            # the same directory with every ref boundary moved by -2*start (what it would be without the
            # known += defect); only meaningful when boundaries are not retained
            if not case["retain"]:
                for name in obs["listing"]["ref"] or []:
                    start = int(name[:-3].rsplit(".", 3)[2])
                    p = os.path.join(out, "ref", name)
                    r = torch.load(p)
                    if r.numel():
                        r = r.clone()
                        r[:, 1:] -= 2 * start
                        torch.save(r, p)
                obs["valid_minus_2start"] = validate(out)
        return obs
    finally:
        shutil.rmtree(tmp, ignore_errors=True)


def model_request(case):
    return {"op": "c10.dir", "case": {
        "policy": case["policy"], "wt": case["wt"], "lobe": case["lobe"], "valid": case["valid"],
        "partial": case["partial"], "retain": case["retain"],
        "utts": [{"T": u["T"], "ali": u["ali"], "ref": u["ref"]} for u in case["utts"]]}}


def compare(case, impl, model):
    if "error" in impl:
        return [f"command raised {impl['error']}: {impl.get('message')}"]
    out = []
    for u, m in zip(case["utts"], model["utts"]):
        got = [[e["start"], e["end"], 0] for e in impl["utts"].get(u["id"], [])]
        if m["model"] != got:
            out.append(f"utterance {u['id']}: windows written {got}, model {m['model']}")
    return out


def predicate(case, impl, model, sig_plus):
    if "error" in impl:
        return [(f"chunk-torch-spect-data-dir raised {impl['error']}: {impl.get('message')}", None)]
    fails = []
    if impl["rc"]:
        fails.append((f"command returned {impl['rc']}", None))
    ls = impl["listing"]
    if ls["feat"] is None or ls["ali"] != ls["feat"] or ls["ref"] != ls["feat"]:
        fails.append((f"output sub-directories do not hold the same utterances: {ls}", None))
        return fails
    plus_seen, other_ref_mismatch = False, False
    for ui, (u, m) in enumerate(zip(case["utts"], model["utts"])):
        ents = impl["utts"].get(u["id"], [])
        spec = m["spec"]
        got = [[e["start"], e["end"], 0] for e in ents]
        if got != spec:
            fails.append((f"utterance {u['id']}: chunks written for windows {got}, the policy prescribes {spec}", None))
            continue
        if [e["idx"] for e in ents] != list(range(len(ents))):
            fails.append((f"utterance {u['id']}: chunk indices {[e['idx'] for e in ents]}", None))
        T = u["T"]
        for e, want_toks in zip(ents, m["tokens"]):
            a, b = e["start"], e["end"]
            want_feat = [[feat_value(ui, t, f) if 0 <= t < T else PAD for f in range(F)] for t in range(a, b)]
            want_ali = [u["ali"][t] if 0 <= t < T else int(PAD) for t in range(a, b)]
            if e["feat"] != want_feat or e["feat_dtype"] != "torch.float32":
                fails.append((f"utterance {u['id']} window [{a},{b}): features are not the source restricted to the "
                              f"window: {e['feat']}", None))
            if e.get("ali") != want_ali or e.get("ali_dtype") != "torch.int64":
                fails.append((f"utterance {u['id']} window [{a},{b}): alignment {e.get('ali')} != {want_ali}", None))
            gref = e.get("ref")
            if gref is None or e["ref_shape"][1:] != [3]:
                fails.append((f"utterance {u['id']} window [{a},{b}): reference chunk missing / shape {e.get('ref_shape')}",
                              None))
                continue
            if gref != want_toks:
                plus = [[t, s + 2 * a, en + 2 * a] for t, s, en in want_toks]
                if (not case["retain"]) and a != 0 and gref == plus:
                    plus_seen = True
                    fails.append((f"utterance {u['id']} window [{a},{b}): token boundaries are in+start {gref}, "
                                  f"slice-relative is {want_toks}", sig_plus))
                else:
                    other_ref_mismatch = True
                    fails.append((f"utterance {u['id']} window [{a},{b}): token chunk {gref}, specified {want_toks}",
                                  None))
    # well-formedness of the produced directory (library validator). Partial matches may legitimately
    # stick out of the chunk and retained boundaries are absolute by request, so the clause is evaluated
    # for contained tokens with slice-relative boundaries only.
    if "valid_raw" in impl and not case["partial"] and not case["retain"]:
        if impl["valid_raw"] != "ok":
            if plus_seen and not other_ref_mismatch and impl.get("valid_minus_2start") == "ok":
                fails.append((f"chunked directory is not well-formed ({impl['valid_raw']}) solely through the "
                              f"+start boundaries", sig_plus))
            else:
                fails.append((f"chunked directory is not well-formed: {impl['valid_raw']}", None))
    fails.sort(key=lambda f: f[1] is not None)
    return fails[:8]


def shrink(case):
    if len(case["utts"]) > 1:
        for i in range(len(case["utts"])):
            c = dict(case)
            c["utts"] = [case["utts"][i]]
            yield c
    for k in ("partial", "retain"):
        if case[k]:
            c = dict(case)
            c[k] = False
            yield c
    if case["lobe"] > 0:
        c = dict(case)
        c["lobe"] = case["lobe"] - 1
        yield c
    for i, u in enumerate(case["utts"]):
        if len(u["ref"]) > 1:
            for d in range(len(u["ref"])):
                c = dict(case)
                c["utts"] = list(case["utts"])
                c["utts"][i] = dict(u, ref=[t for j, t in enumerate(u["ref"]) if j != d])
                yield c
