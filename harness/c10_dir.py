"""Directory level of C10: `chunk-torch-spect-data-dir` on small well-formed directories.

A case carries the whole input directory (utterances with frame-identifying features, alignments,
token segments), one slicing configuration and the COMMAND LINE it is run with: which of the three
boolean flags (`--partial-tokens`, `--retain-token-boundaries`, `--quiet`) are given, the padding
mode / constant, the file prefix / suffix, the three sub-directory names, the utterance format
string (the command's default or one carrying the chunk index) and whether `ali/` and `ref/` exist.
`run_dir` writes the directory to a temporary place, runs the command with `--num-workers 0`
in-process, reads the output directory back and runs the library's own validator on it. The Lean
driver (`c10.dir`) supplies the windows the policy prescribes for each utterance and the specified
token chunk of every window; the frames a chunk must hold (source restricted to the window, padded
as asked) are computed here from the frame-identifying feature values.

Quick tier (`gen_quick`): every subset of the three boolean flags x policy x {valid-only, padded},
a few rounds with window type, lobe, padding mode and directory drawn at random, every directory of
the pool containing tokens that straddle window edges and windows that do not start at frame 0;
plus every non-default file-layout option alone and all together. Thorough tier adds random runs.
"""
import itertools
import os
import shutil
import tempfile
import warnings

F = 3
PAD = -1.0
POLICIES = ["fixed", "ali", "ref"]
WTS = ["symmetric", "causal", "future"]
DEFAULT_OPTS = {"prefix": None, "suffix": None, "feat_subdir": None, "ali_subdir": None, "ref_subdir": None,
                "format": "idx", "has_ali": True, "has_ref": True}
FORMATS = {"idx": "{utt_id}.{idx}.{start}.{end}", "default": None}
ALT_OPTS = {"prefix": "p-", "suffix": ".tensor", "feat_subdir": "ff", "ali_subdir": "aa", "ref_subdir": "rr",
            "format": "default", "has_ali": False, "has_ref": False}


# ----------------------------------------------------------------------------- generators
def tok_id(rng):
    """A token id: the slicer documents it as ignored and the chunker only copies it. Mostly small class
    indices, but also ids far from 0 and NEGATIVE ids (e.g. -1 for an unknown token: the library's validator
    rejects those, so for such a source the well-formedness clause is not evaluated, everything else is)."""
    x = rng.random()
    if x < 0.7:
        return rng.randint(0, 9)
    if x < 0.85:
        return rng.choice([rng.randint(10, 2 ** 40), 2 ** 31, 2 ** 62])
    return rng.choice([-1, -1, -rng.randint(2, 9), -2 ** 31 - 1])


def ali_labels(rng):
    """Three distinct alignment labels: only equality of neighbouring frames matters to the 'ali' policy."""
    if rng.random() < 0.5:
        return [0, 1, 2]
    out = []
    while len(out) < 3:
        v = rng.choice([rng.randint(-9, 9), rng.randint(-2 ** 40, 2 ** 40), 2 ** 31, -2 ** 31 - 1])
        if v not in out:
            out.append(v)
    return out


def gen_utt(rng, u, style):
    """One utterance. style 'tiled': tokens tile the utterance (neighbouring segments, assorted
    durations: some inside a window, some straddling window edges); 'random': arbitrary segments
    incl. missing (-1) and empty ones; 'tiny': a single frame."""
    if style == "empty":      # (audit) an utterance without frames: no chunk (C10_dir_empty)
        return {"id": rng.choice([f"e{u}", f"e.{u}"]), "T": 0, "ali": [], "ref": []}
    if style == "tiny":
        T = 1
    elif style == "tiled":
        T = rng.randint(6, 12)
    else:
        T = rng.randint(1, 9)
    ali = [rng.randint(0, 2)]
    for _ in range(T - 1):
        ali.append(ali[-1] if rng.random() < 0.55 else rng.randint(0, 2))
    labels = ali_labels(rng)
    ali = [labels[a] for a in ali]
    ref = []
    if style == "tiled":
        t = rng.choice([0, 0, 1])
        while t < T:
            d = min(rng.randint(1, 4), T - t)
            ref.append([tok_id(rng), t, t + d])
            t += d
            if rng.random() < 0.1:
                break
    else:
        for _ in range(rng.randint(0, 4)):
            if rng.random() < 0.15:
                ref.append([tok_id(rng), -rng.choice([1, 1, 2, 7]), -rng.choice([1, 1, 3, 2 ** 33])])   # missing = any negative pair
            else:
                s = rng.randint(0, T)
                e = rng.randint(s, T)
                ref.append([tok_id(rng), s, e])
        if rng.random() < 0.6:
            ref.sort(key=lambda t: (t[1], t[2]))
    uid = rng.choice([f"u{u}", f"spk{u}.a-{u}", f"{u}_x"])
    return {"id": uid, "T": T, "ali": ali, "ref": ref}


def gen_long_utt(rng, u, T):
    """An utterance of T frames with MANY runs and tokens (size-triggered paths of the worker: more than 16 / 32 /
    128 tokens per utterance, more than 32 / 128 chunks per utterance whatever the policy): alignment runs of 1..3
    frames over three labels (neighbours differ), tokens with DISTINCT ids whose segments follow one another
    (widths 1..3, now and then empty, a gap, or a missing boundary) - any reordering shows."""
    labels = ali_labels(rng)
    ali, lab = [], rng.randint(0, 2)
    while len(ali) < T:
        ali += [labels[lab]] * min(rng.randint(1, 3), T - len(ali))
        lab = rng.choice([x for x in range(3) if x != lab])
    ids = list(range(100, 100 + T))
    rng.shuffle(ids)
    ref, t = [], rng.choice([0, 0, 1])
    while t < T:
        d = min(rng.choice([1, 1, 2, 3, 0]), T - t)
        tk = [ids[len(ref)], t, t + d]
        x = rng.random()
        if x < 0.03:
            tk[1] = -rng.choice([1, 2, 7])
        elif x < 0.06:
            tk[2] = -rng.choice([1, 3])
        ref.append(tk)
        t += d + (1 if rng.random() < 0.05 else 0)
        if len(ref) >= T:
            break
    return {"id": rng.choice([f"L{u}", f"long.{u}"]), "T": T, "ali": ali, "ref": ref}


LONG_T = [33, 40, 64, 65, 128, 129]


def gen_large(rng, rounds=1):
    """Size-triggered paths at directory level. Per policy x validity one run on a long utterance (T in 33..129:
    about T/2 tokens and runs, T resp. T/2 chunks) next to a short one; one run per round on an utterance of 1000+
    frames with --policy fixed and a lobe of 31..64 frames (hundreds of tokens per utterance, dozens per chunk, few
    chunks: cheap on the file system); from the second round on (thorough) also an utterance of 1000+ frames cut
    by a drawn policy with a small lobe (hundreds of chunks)."""
    for rnd in range(rounds):
        for policy in POLICIES:
            for valid in (True, False):
                utts = [gen_long_utt(rng, 0, rng.choice(LONG_T))]
                if rng.random() < 0.5:
                    utts.append(gen_utt(rng, 1, "tiled"))
                yield mk_case(rng, policy, valid, rng.random() < 0.5, rng.random() < 0.5, True, utts,
                              {"format": rng.choice(["idx", "default"])}, lobe=rng.choice([0, 0, 1, 2]))
        yield mk_case(rng, "fixed", rng.random() < 0.5, rng.random() < 0.5, rng.random() < 0.5, True,
                      [gen_long_utt(rng, 0, 1000 + rng.randint(0, 40))], lobe=rng.choice([31, 32, 33, 64]))
        if rnd >= 1:
            yield mk_case(rng, rng.choice(POLICIES), rng.random() < 0.5, rng.random() < 0.5, rng.random() < 0.5, True,
                          [gen_long_utt(rng, 0, 1000 + rng.randint(0, 40))], lobe=rng.choice([0, 1, 2]))


def gen_utts(rng, style=None):
    style = style or rng.choice(["tiled", "random", "mixed"])
    nutt = rng.randint(1, 4)
    utts = []
    for u in range(nutt):
        st = style if style != "mixed" else rng.choice(["tiled", "random", "tiny", "empty"])
        utts.append(gen_utt(rng, u, st))
    return utts


def mk_case(rng, policy, valid, partial, retain, quiet, utts, opts=None, wt=None, lobe=None):
    pad_mode = None if valid else rng.choice(["constant", "constant", "replicate", "reflect"])
    # None = flag not given (the command's default 0.0); integral values only: alignments are integer tensors
    pad_constant = rng.choice([None, PAD, 7.0]) if pad_mode == "constant" else None
    o = dict(DEFAULT_OPTS)
    o.update(opts or {})
    if policy == "ali":
        o["has_ali"] = True
    if policy == "ref":
        o["has_ref"] = True
    return {"kind": "dir", "policy": policy, "wt": wt or rng.choice(WTS),
            "lobe": rng.randint(0, 3) if lobe is None else lobe, "valid": valid, "pad_mode": pad_mode,
            "pad_constant": pad_constant, "partial": partial, "retain": retain, "quiet": quiet, "opts": o,
            "feat_dtype": rng.choice(["float32", "float32", "float64"]),
            # options equal to their documented default (--policy fixed, --window-type symmetric, --lobe-size 0)
            # are left off the command line
            "omit_defaults": rng.random() < 0.6, "utts": utts}


def gen_quick(rng, rounds=3):
    pool = [gen_utts(rng, "tiled") for _ in range(3)] + [gen_utts(rng, "random") for _ in range(2)] + \
           [gen_utts(rng, "mixed")]
    # every subset of the boolean flags on the command line x policy x validity
    for rnd in range(rounds):
        for policy, valid, (p, r, q) in itertools.product(POLICIES, [True, False],
                                                          itertools.product([False, True], repeat=3)):
            utts = pool[0] if rnd == 0 else rng.choice(pool)
            yield mk_case(rng, policy, valid, p, r, q, utts)
    # file-layout options: each non-default value alone, then all together, for every policy that allows it
    for k, v in ALT_OPTS.items():
        for policy in POLICIES:
            if (k == "has_ali" and policy == "ali") or (k == "has_ref" and policy == "ref"):
                continue
            yield mk_case(rng, policy, rng.random() < 0.5, rng.random() < 0.5, rng.random() < 0.5, True,
                          rng.choice(pool), {k: v})
    for policy in POLICIES:
        for valid in (True, False):
            yield mk_case(rng, policy, valid, rng.random() < 0.5, rng.random() < 0.5, rng.random() < 0.5,
                          rng.choice(pool), dict(ALT_OPTS, has_ali=policy != "fixed", has_ref=policy != "fixed"))
    # the command's documented defaults, left off the command line: all at once and one at a time
    for policy in POLICIES:
        for wt, lobe in (("symmetric", 0), ("symmetric", rng.randint(1, 3)), (rng.choice(WTS[1:]), 0)):
            c = mk_case(rng, policy, rng.random() < 0.5, rng.random() < 0.5, rng.random() < 0.5, True,
                        rng.choice(pool), wt=wt, lobe=lobe)
            c["omit_defaults"] = True
            yield c
    # default names beyond their five-digit field and below zero: an utterance of 10**5 + a few frames cut at
    # reference segments near its end (`{start:05d}` must widen, not truncate; `-0003` for a padded start)
    for valid in (True, False):
        T = 10 ** 5 + rng.randint(3, 9)
        a = rng.randint(99990, 99998)
        utt = {"id": rng.choice(["long", "long.1"]), "T": T, "ali": [],
               "ref": [[tok_id(rng), 0, rng.randint(1, 3)], [tok_id(rng), a, 10 ** 5], [tok_id(rng), 10 ** 5, T]]}
        yield mk_case(rng, "ref", valid, rng.random() < 0.5, rng.random() < 0.5, True, [utt],
                      {"format": "default", "has_ali": False})


    # (audit) an utterance without frames next to ordinary ones, and alone: nothing is written for it, the run succeeds
    for policy in POLICIES:
        for valid in (True, False):
            utts = [gen_utt(rng, 0, "empty")] + ([gen_utt(rng, 1, "tiled")] if rng.random() < 0.7 else [])
            rng.shuffle(utts)
            yield mk_case(rng, policy, valid, rng.random() < 0.5, rng.random() < 0.5, True, utts)
    # (audit) a source whose ref/ files hold token ids only (1-D tensors: a well-formed SpectDataSet directory; the
    # model has no such source): 'ref' must refuse (no segments), 'fixed' / 'ali' must not crash half-way
    for policy in POLICIES:
        for valid in (True, False):
            c = mk_case(rng, policy, valid, rng.random() < 0.5, rng.random() < 0.5, True, gen_utts(rng, "tiled"))
            c["ref_1d"] = True
            yield c


def gen_cases(rng, n):
    for i in range(n):
        opts = {k: v for k, v in ALT_OPTS.items() if rng.random() < 0.2}
        c = mk_case(rng, rng.choice(POLICIES), rng.random() < 0.6, rng.random() < 0.4, rng.random() < 0.4,
                    rng.random() < 0.7, gen_utts(rng), opts)
        if c["opts"]["has_ref"] and rng.random() < 0.05:
            c["ref_1d"] = True
        yield c


# ----------------------------------------------------------------------------- running the command
def feat_value(u, t, f):
    return float(1000 * (u + 1) + 10 * t + f)


def norm(case):
    """Cases written before the command-line options were part of a case (corpus, old replays)."""
    c = dict(case)
    c.setdefault("pad_mode", None if c["valid"] else "constant")
    c.setdefault("pad_constant", None if c["valid"] else PAD)
    c.setdefault("quiet", True)
    c.setdefault("feat_dtype", "float32")
    c.setdefault("omit_defaults", False)
    c.setdefault("ref_1d", False)
    o = dict(DEFAULT_OPTS)
    o.update(c.get("opts") or {})
    c["opts"] = o
    return c


def layout(case):
    o = case["opts"]
    return {"prefix": o["prefix"] or "", "suffix": o["suffix"] or ".pt", "feat": o["feat_subdir"] or "feat",
            "ali": o["ali_subdir"] or "ali", "ref": o["ref_subdir"] or "ref"}


def write_dir(case, root):
    import torch
    lay = layout(case)
    subs = ["feat"] + (["ali"] if case["opts"]["has_ali"] else []) + (["ref"] if case["opts"]["has_ref"] else [])
    for sub in subs:
        os.makedirs(os.path.join(root, lay[sub]))
    for ui, u in enumerate(case["utts"]):
        T = u["T"]
        name = lay["prefix"] + u["id"] + lay["suffix"]
        feat = torch.tensor([[feat_value(ui, t, f) for f in range(F)] for t in range(T)],
                            dtype=getattr(torch, case["feat_dtype"])).reshape(T, F)
        torch.save(feat, os.path.join(root, lay["feat"], name))
        if "ali" in subs:
            torch.save(torch.tensor(u["ali"], dtype=torch.long), os.path.join(root, lay["ali"], name))
        if "ref" in subs:
            if case.get("ref_1d"):      # token ids only, no segment boundaries
                ref = torch.tensor([tk[0] for tk in u["ref"]], dtype=torch.long)
            else:
                ref = torch.tensor(u["ref"], dtype=torch.long).reshape(len(u["ref"]), 3)
            torch.save(ref, os.path.join(root, lay["ref"], name))


def validate(root, case):
    from pydrobert.torch import data
    lay = layout(case)
    try:
        with warnings.catch_warnings():
            warnings.simplefilter("ignore")
            ds = data.SpectDataSet(root, lay["prefix"], lay["suffix"], feat_subdir=lay["feat"],
                                   ali_subdir=lay["ali"] if case["opts"]["has_ali"] else None,
                                   ref_subdir=lay["ref"] if case["opts"]["has_ref"] else None,
                                   suppress_alis=False, tokens_only=False)
            data.validate_spect_data_set(ds)
        return "ok"
    except Exception as e:
        return f"{type(e).__name__}: {str(e)[:160]}"


def command_args(case, src, out):
    o = case["opts"]
    args = [src, out, "--num-workers", "0"]
    for flag, value, default in (("--policy", case["policy"], "fixed"), ("--window-type", case["wt"], "symmetric"),
                                 ("--lobe-size", str(case["lobe"]), "0")):
        if not (case["omit_defaults"] and value == default):
            args += [flag, value]
    if FORMATS[o["format"]] is not None:
        args += ["--format-utt", FORMATS[o["format"]]]
    if case["pad_mode"] is not None:
        args += ["--pad-mode", case["pad_mode"]]
    if case["pad_constant"] is not None:
        args += ["--pad-constant", str(case["pad_constant"])]
    for flag, key in (("--partial-tokens", "partial"), ("--retain-token-boundaries", "retain"), ("--quiet", "quiet")):
        if case[key]:
            args.append(flag)
    for flag, key in (("--file-prefix", "prefix"), ("--file-suffix", "suffix"), ("--feat-subdir", "feat_subdir"),
                      ("--ali-subdir", "ali_subdir"), ("--ref-subdir", "ref_subdir")):
        if o[key] is not None:
            args += [flag, o[key]]
    return args


def parse_name(case, name):
    """(utt_id, idx or None, start, end) of an output file name; None if it does not have the asked form."""
    lay = layout(case)
    if not (name.startswith(lay["prefix"]) and name.endswith(lay["suffix"])):
        return None
    core = name[len(lay["prefix"]):len(name) - len(lay["suffix"])]
    try:
        if case["opts"]["format"] == "idx":
            uid, idx, start, end = core.rsplit(".", 3)
            return uid, int(idx), int(start), int(end)
        uid, start, end = core.rsplit(".", 2)
        if any(len(x) < 5 or x != format(int(x), "05d") for x in (start, end)):
            return None
        return uid, None, int(start), int(end)
    except ValueError:
        return None


def run_dir(case):
    import torch
    from pydrobert.torch import command_line
    case = norm(case)
    lay = layout(case)
    tmp = tempfile.mkdtemp(prefix="c10dir_")
    try:
        src, out = os.path.join(tmp, "in"), os.path.join(tmp, "out")
        write_dir(case, src)
        with warnings.catch_warnings():
            warnings.simplefilter("ignore")
            rc = command_line.chunk_torch_spect_data_dir(command_args(case, src, out))
        obs = {"rc": rc if rc is None else int(rc), "listing": {}, "utts": {}, "bad_names": [],
               "out_entries": sorted(os.listdir(out)) if os.path.isdir(out) else None}
        for sub in ("feat", "ali", "ref"):
            d = os.path.join(out, lay[sub])
            obs["listing"][sub] = sorted(os.listdir(d)) if os.path.isdir(d) else None
        for name in obs["listing"]["feat"] or []:
            parsed = parse_name(case, name)
            if parsed is None:
                obs["bad_names"].append(name)
                continue
            uid, idx, start, end = parsed
            ent = {"idx": idx, "start": start, "end": end, "name": name}
            feat = torch.load(os.path.join(out, lay["feat"], name))
            ent["feat_shape"] = list(feat.shape)
            ent["feat"] = [[float(x) for x in row] for row in feat.tolist()]
            ent["feat_dtype"] = str(feat.dtype)
            p = os.path.join(out, lay["ali"], name)
            if os.path.exists(p):
                a = torch.load(p)
                ent["ali"] = a.tolist()
                ent["ali_dtype"] = str(a.dtype)
            p = os.path.join(out, lay["ref"], name)
            if os.path.exists(p):
                r = torch.load(p)
                ent["ref"] = r.tolist()
                ent["ref_shape"] = list(r.shape)
            obs["utts"].setdefault(uid, []).append(ent)
        for uid in obs["utts"]:
            obs["utts"][uid].sort(key=lambda e: (e["idx"] if e["idx"] is not None else 0, e["start"], e["end"]))
        nchunks = len(obs["listing"]["feat"] or [])
        if nchunks:
            obs["valid_raw"] = validate(out, case)
            # the same directory with every ref boundary moved by -2*start (what it would be without the
            # known += defect); only meaningful when boundaries are not retained
            if not case["retain"] and case["opts"]["has_ref"]:
                for name in obs["listing"]["ref"] or []:
                    parsed = parse_name(case, name)
                    if parsed is None:
                        continue
                    start = parsed[2]
                    p = os.path.join(out, lay["ref"], name)
                    r = torch.load(p)
                    if r.numel():
                        r = r.clone()
                        r[:, 1:] -= 2 * start
                        torch.save(r, p)
                obs["valid_minus_2start"] = validate(out, case)
        return obs
    finally:
        shutil.rmtree(tmp, ignore_errors=True)


def model_request(case):
    case = norm(case)
    lay = layout(case)
    pad_value = 0.0 if case["pad_constant"] is None else case["pad_constant"]
    return {"op": "c10.dir", "case": {
        "policy": case["policy"], "wt": case["wt"], "lobe": case["lobe"], "valid": case["valid"],
        "partial": case["partial"], "retain": case["retain"],
        # the command line as the model of the whole worker (`dirWorker`) takes it
        "pad_mode": case["pad_mode"], "pad_constant_ali": int(pad_value), "format": case["opts"]["format"],
        "prefix": lay["prefix"], "suffix": lay["suffix"], "has_ali": case["opts"]["has_ali"],
        "has_ref": case["opts"]["has_ref"] and not case["ref_1d"],
        "utts": [{"id": u["id"], "T": u["T"], "ali": u["ali"], "ref": u["ref"]} for u in case["utts"]]}}


def frame_ids(case, ui, rows):
    """Feature rows -> indices of the source frames they show (-1: the pad constant, None: neither)."""
    pad_value = 0.0 if case["pad_constant"] is None else case["pad_constant"]
    T = case["utts"][ui]["T"]
    out = []
    for row in rows:
        t = round((row[0] - feat_value(ui, 0, 0)) / 10) if row else None
        if t is not None and 0 <= t < T and row == [feat_value(ui, t, f) for f in range(F)]:
            out.append(t)
        elif row == [pad_value] * F:
            out.append(-1)
        else:
            out.append(None)
    return out


def expected_error(model):
    """The error class the model of the worker predicts for the run (first utterance that fails), or None."""
    for m in model["utts"]:
        mf = m.get("model_files")
        if isinstance(mf, str) and mf.startswith("error:"):
            return mf[len("error:"):]
    return None


def compare_files(case, impl, model):
    """Everything written against the model of the whole worker: names, frames, alignments, tokens."""
    out = []
    lay = layout(case)
    want_names = set()
    for ui, (u, m) in enumerate(zip(case["utts"], model["utts"])):
        mf = m.get("model_files")
        if not isinstance(mf, list):
            continue
        held = {}
        for f in mf:          # a later write replaces an earlier one of the same name
            held[f["base"]] = f
        want_names |= set(held)
        by_name = {e["name"]: e for e in impl["utts"].get(u["id"], [])}
        for name, f in held.items():
            e = by_name.get(name)
            if e is None:
                if name not in (impl["listing"]["feat"] or []):
                    out.append(f"utterance {u['id']}: the model of the worker writes '{name}', the command did not")
                continue
            got = frame_ids(case, ui, e["feat"])
            if got != f["feat"]:
                out.append(f"file {name}: frames {brief(got)} (index of the source frame, -1 = pad constant), model {brief(f['feat'])}")
            if case["opts"]["has_ali"] and e.get("ali") != f["ali"]:
                out.append(f"file {name}: alignment {brief(e.get('ali'))}, model {brief(f['ali'])}")
            if case["opts"]["has_ref"] and e.get("ref") != f["ref"]:
                out.append(f"file {name}: tokens {brief(e.get('ref'))}, model {brief(f['ref'])}{order_note(e.get('ref'), f['ref'])}")
    if all(isinstance(m.get("model_files"), list) for m in model["utts"]):
        got_names = set(impl["listing"]["feat"] or [])
        if got_names != want_names:
            out.append(f"files written {sorted(got_names - want_names)[:4]} not in the model / model files "
                       f"{sorted(want_names - got_names)[:4]} not written")
    return out[:4]


# ----------------------------------------------------------------------------- comparison / property
def windows_of(case, ents):
    """The windows written for one utterance: in chunk-index order when the names carry the index,
    otherwise (default names: two equal windows share a name) the sorted set."""
    if case["opts"]["format"] == "idx":
        return [[e["start"], e["end"], 0] for e in ents]
    return sorted({(e["start"], e["end"], 0) for e in ents})


def windows_want(case, ws):
    if case["opts"]["format"] == "idx":
        return ws
    return sorted({tuple(w) for w in ws})


SIG_1D = "C10.dir.token_only_refs_index_error"


def order_note(got, want):
    """Do two token lists hold the same token ids in a different order?"""
    if isinstance(got, list) and isinstance(want, list) and got != want and len(got) == len(want) and \
            [t[0] for t in got] != [t[0] for t in want] and sorted(t[0] for t in got) == sorted(t[0] for t in want):
        return " [the SAME tokens in a different ORDER]"
    return ""


def brief(x, k=6):
    """Long lists in messages: the first and last few entries."""
    x = list(x) if isinstance(x, (list, tuple)) else x
    if isinstance(x, list) and len(x) > 2 * k:
        return f"{x[:k]}".rstrip("]") + f", ... ({len(x) - 2 * k} more) ..., " + f"{x[-k:]}".lstrip("[")
    return f"{x}"


def predicate_ref_1d(case, impl, model):
    """Token-only ref/ files (1-D tensors). Policy 'ref' needs segments: the slicer's RuntimeError is the
    documented refusal (raised by the first utterance that has a token). 'fixed' / 'ali': the token chunker
    documents that it returns EMPTY results for 2-D refs; the worker then indexes row n of them. The listed
    known finding is exactly: IndexError, policy not 'ref', some utterance has a prescribed window."""
    err = impl.get("error") if isinstance(impl, dict) else None
    if case["policy"] == "ref":
        want = "RuntimeError" if any(u["ref"] for u in case["utts"]) else None
        if err != want:
            return [(f"token-only refs with --policy ref: expected {want}, got {err or 'no error'}", None)]
        return []
    if outside_chunker_domain(case, model):      # reflect padding not shorter than the utterance: the frame chunker
        if err == "NotImplementedError":           # refuses first (it runs before the token chunker)
            return []
        if not err:
            return [("reflect padding at least as long as the utterance was accepted", None)]
    nwin = sum(len(m["spec"]) for m in model["utts"])
    if nwin == 0:
        return [(f"token-only refs, no window prescribed: raised {err}", None)] if err else []
    if err == "IndexError":
        return [(f"chunk-torch-spect-data-dir --policy {case['policy']} on a directory whose ref/ files hold token "
                 f"ids only: IndexError after the first chunk's feat/ali files were written ({impl.get('message')})",
                 SIG_1D)]
    if err:
        return [(f"token-only refs: chunk-torch-spect-data-dir raised {err}: {impl.get('message')}", None)]
    # repaired behaviour (whatever is written to ref/): the feature chunks must still be the prescribed ones
    fails = []
    for u, m in zip(case["utts"], model["utts"]):
        got = [list(w) for w in windows_of(case, impl["utts"].get(u["id"], []))]
        if got != [list(w) for w in windows_want(case, m["spec"])]:
            fails.append((f"utterance {u['id']}: chunks written for windows {brief(got)}, the policy prescribes {brief(m['spec'])}",
                          None))
    return fails


def compare(case, impl, model):
    case = norm(case)
    if case["ref_1d"]:          # the model of the worker has no token-only source; see predicate_ref_1d
        return []
    want_err = expected_error(model)
    if "error" in impl:
        if want_err is not None and impl["error"] == want_err:
            return []
        return [f"command raised {impl['error']}: {impl.get('message')}; model of the worker: "
                f"{'no error' if want_err is None else want_err}"]
    if want_err is not None:
        return [f"command succeeded, the model of the worker raises {want_err}"]
    out = compare_files(case, impl, model)
    for u, m in zip(case["utts"], model["utts"]):
        got = [list(w) for w in windows_of(case, impl["utts"].get(u["id"], []))]
        want = [list(w) for w in windows_want(case, m["model"])] if isinstance(m["model"], list) else m["model"]
        if want != got:
            out.append(f"utterance {u['id']}: windows written {brief(got)}, model {brief(want)}")
            continue
        # the token chunk written for each window against the model of the worker (`dirChunks`, the function
        # the C10_dir theorems are about; it has the code's `+= start`)
        mc = m.get("model_chunks")
        if not case["opts"]["has_ref"] or not isinstance(mc, list):
            continue
        by_win = {}
        for c in mc:
            by_win.setdefault((c["win"][0], c["win"][1]), c["toks"])
        ents = impl["utts"].get(u["id"], [])
        if case["opts"]["format"] == "idx":
            pairs = list(zip(ents, [c["toks"] for c in mc]))
        else:
            pairs = [(e, by_win.get((e["start"], e["end"]))) for e in ents]
        for e, toks in pairs:
            if e.get("ref") != toks:
                out.append(f"utterance {u['id']} window [{e['start']},{e['end']}): token chunk written "
                           f"{brief(e.get('ref'))}, model {brief(toks)}{order_note(e.get('ref'), toks)}")
                break
    return out


def pad_frame(case, t, T):
    """Index of the source frame chunk position `t` must show, or None for the padding constant."""
    if 0 <= t < T:
        return t
    if case["pad_mode"] == "replicate":
        return min(max(t, 0), T - 1)
    if case["pad_mode"] == "reflect":       # only asked for |padding| < T
        return -t if t < 0 else 2 * (T - 1) - t
    return None


def outside_chunker_domain(case, model):
    """Reflect padding is documented for paddings shorter than the sequence only: does some prescribed window
    of the run need more? (`spec_files` holds `null` for such a window.)"""
    return case["pad_mode"] == "reflect" and any(
        f is None for m in model["utts"] for f in (m.get("spec_files") or []))


def predicate(case, impl, model, sig_plus):
    case = norm(case)
    if case["ref_1d"]:
        return predicate_ref_1d(case, impl, model)
    if "error" in impl:
        if impl["error"] == "NotImplementedError" and outside_chunker_domain(case, model):
            return []
        return [(f"chunk-torch-spect-data-dir raised {impl['error']}: {impl.get('message')}", None)]
    if outside_chunker_domain(case, model):
        return [("reflect padding at least as long as the utterance was accepted", None)]
    fails = []
    o = case["opts"]
    lay = layout(case)
    if impl["rc"]:
        fails.append((f"command returned {impl['rc']}", None))
    ls = impl["listing"]
    want_ls = {"feat": True, "ali": o["has_ali"], "ref": o["has_ref"]}
    for sub in ("feat", "ali", "ref"):
        if want_ls[sub] and (ls[sub] is None or ls[sub] != ls["feat"]):
            fails.append((f"output sub-directories do not hold the same utterances: {ls}", None))
            return fails
        if not want_ls[sub] and ls[sub]:
            fails.append((f"'{lay[sub]}/' written although the source has none: {ls[sub]}", None))
    extra = [e for e in impl.get("out_entries") or [] if e not in (lay["feat"], lay["ali"], lay["ref"])]
    if extra:
        fails.append((f"unexpected entries in the output directory: {extra}", None))
    if impl["bad_names"]:
        fails.append((f"output names without the requested prefix/suffix/format: {impl['bad_names'][:4]}", None))
    known_ids = {u["id"] for u in case["utts"]}
    stray = sorted(set(impl["utts"]) - known_ids)
    if stray:
        fails.append((f"chunks of utterances that are not in the source: {stray}", None))
    pad_value = 0.0 if case["pad_constant"] is None else case["pad_constant"]
    plus_seen, other_ref_mismatch = False, False
    for ui, (u, m) in enumerate(zip(case["utts"], model["utts"])):
        ents = impl["utts"].get(u["id"], [])
        spec = m["spec"]
        got = [list(w) for w in windows_of(case, ents)]
        if got != [list(w) for w in windows_want(case, spec)]:
            fails.append((f"utterance {u['id']}: chunks written for windows {brief(got)}, the policy prescribes {brief(spec)}", None))
            continue
        if o["format"] == "idx":
            if [e["idx"] for e in ents] != list(range(len(ents))):
                fails.append((f"utterance {u['id']}: chunk indices {[e['idx'] for e in ents]}", None))
            pairs = list(zip(ents, m["tokens"]))
        else:
            by_win = {}
            for w, toks in zip(spec, m["tokens"]):
                by_win.setdefault((w[0], w[1]), toks)
            pairs = [(e, by_win[(e["start"], e["end"])]) for e in ents]
        T = u["T"]
        # names, frames and alignments against the Lean specification (`baseName`, C09's `chunkSeq`)
        sf = m.get("spec_files")
        if isinstance(sf, list):
            by_name = {e["name"]: e for e in ents}
            for f in sf:
                e = by_name.get(f["base"])
                if e is None:
                    fails.append((f"utterance {u['id']}: no file named '{f['base']}' (names written: "
                                  f"{sorted(by_name)[:4]})", None))
                    continue
                if frame_ids(case, ui, e["feat"]) != f["feat"]:
                    fails.append((f"file {f['base']}: frames {brief(frame_ids(case, ui, e['feat']))} are not the "
                                  f"source restricted to the window with the requested padding {brief(f['feat'])}", None))
                if o["has_ali"] and e.get("ali") != f["ali"]:
                    fails.append((f"file {f['base']}: alignment {brief(e.get('ali'))}, specified {brief(f['ali'])}", None))
        for e, want_toks in pairs:
            a, b = e["start"], e["end"]
            src_t = [pad_frame(case, t, T) for t in range(a, b)]
            want_feat = [[feat_value(ui, t, f) if t is not None else pad_value for f in range(F)] for t in src_t]
            if e["feat"] != want_feat:
                fails.append((f"utterance {u['id']} window [{a},{b}): features are not the source restricted to the "
                              f"window: {brief(e['feat'])}", None))
            elif e["feat_dtype"] != "torch." + case["feat_dtype"]:
                fails.append((f"utterance {u['id']} window [{a},{b}): features stored as {e['feat_dtype']}, the source "
                              f"holds {case['feat_dtype']}", None))
            if o["has_ali"]:
                want_ali = [u["ali"][t] if t is not None else int(pad_value) for t in src_t]
                if e.get("ali") != want_ali or e.get("ali_dtype") != "torch.int64":
                    fails.append((f"utterance {u['id']} window [{a},{b}): alignment {brief(e.get('ali'))} != {brief(want_ali)}", None))
            if not o["has_ref"]:
                continue
            gref = e.get("ref")
            if gref is None or e["ref_shape"][1:] != [3]:
                fails.append((f"utterance {u['id']} window [{a},{b}): reference chunk missing / shape {e.get('ref_shape')}",
                              None))
                continue
            if gref != want_toks:
                plus = [[t, s + 2 * a, en + 2 * a] for t, s, en in want_toks]
                if (not case["retain"]) and a != 0 and gref == plus:
                    plus_seen = True
                    fails.append((f"utterance {u['id']} window [{a},{b}): token boundaries are in+start {brief(gref)}, "
                                  f"slice-relative is {brief(want_toks)}", sig_plus))
                else:
                    other_ref_mismatch = True
                    fails.append((f"utterance {u['id']} window [{a},{b}) partial={case['partial']} "
                                  f"retain={case['retain']}: token chunk {brief(gref)}, specified {brief(want_toks)}"
                                  f"{order_note(gref, want_toks)}", None))
    # well-formedness of the produced directory (library validator). Partial matches may legitimately
    # stick out of the chunk and retained boundaries are absolute by request, so the clause is evaluated
    # for contained tokens with slice-relative boundaries only.
    # A source holding a negative token id is not well-formed by the validator's own rule (the premise of the
    # clause fails); all other clauses above are evaluated for it as for any other source.
    src_well_formed = all(tk[0] >= 0 for u in case["utts"] for tk in u["ref"]) or not o["has_ref"]
    if "valid_raw" in impl and not case["partial"] and not case["retain"] and src_well_formed:
        if impl["valid_raw"] != "ok":
            if plus_seen and not other_ref_mismatch and impl.get("valid_minus_2start") == "ok":
                fails.append((f"chunked directory is not well-formed ({impl['valid_raw']}) solely through the "
                              f"+start boundaries", sig_plus))
            else:
                fails.append((f"chunked directory is not well-formed: {impl['valid_raw']}", None))
    fails.sort(key=lambda f: f[1] is not None)
    return fails[:8]


# ----------------------------------------------------------------------------- evidence
def tags(case, impl):
    case = norm(case)
    o = case["opts"]
    t = ["dir", f"dir:{case['policy']}:{case['wt']}:{'valid' if case['valid'] else 'pad'}",
         f"dir:{case['policy']}:partial={int(case['partial'])}:retain={int(case['retain'])}",
         f"dir:flags:partial={int(case['partial'])}:retain={int(case['retain'])}:quiet={int(case['quiet'])}",
         f"dir:lobe={case['lobe']}", f"dir:pad_mode={case['pad_mode']}"]
    if case["pad_mode"] == "constant":
        t.append(f"dir:pad_constant={'default' if case['pad_constant'] is None else case['pad_constant']}")
    for k, v in o.items():
        if v != DEFAULT_OPTS[k]:
            t.append(f"dir:opt:{k}={v}")
    t.append(f"dir:feat_dtype={case['feat_dtype']}")
    if case["ref_1d"]:
        t.append(f"dir:ref_token_only:{case['policy']}")
    if any(u["T"] == 0 for u in case["utts"]):
        t.append(f"dir:utt_without_frames:{case['policy']}")
    if case["omit_defaults"]:
        for k, v, d in (("policy", case["policy"], "fixed"), ("window-type", case["wt"], "symmetric"),
                        ("lobe-size", case["lobe"], 0)):
            if v == d:
                t.append(f"dir:default_omitted:--{k}")
    if o["has_ref"] and any(tk[0] < 0 and tk[1] >= 0 and tk[2] >= 0 for u in case["utts"] for tk in u["ref"]):
        t.append(f"dir:{case['policy']}:token_id<0:segment_known")
    if o["has_ref"] and any(abs(tk[0]) >= 2 ** 31 for u in case["utts"] for tk in u["ref"]):
        t.append("dir:token_id:beyond_int32")
    if o["has_ali"] and any(a < 0 for u in case["utts"] for a in u["ali"]):
        t.append(f"dir:{case['policy']}:ali_label<0")
    if isinstance(impl, dict) and "error" in impl:
        t.append(f"dir:pad_mode={case['pad_mode']}:raised:{impl['error']}")
    if isinstance(impl, dict) and "utts" in impl:
        for es in impl["utts"].values():
            for lim in (16, 32, 128):
                if len(es) > lim:
                    t.append(f"dir:large:chunks_per_utt>{lim}:{case['policy']}")
                if o["has_ref"] and any(len(e.get("ref") or []) > lim for e in es):
                    t.append(f"dir:large:tokens_in_a_chunk>{lim}")
        for u in case["utts"]:
            for lim in (16, 32, 128):
                if len(u["ref"]) > lim:
                    t.append(f"dir:large:tokens_per_utt>{lim}")
        if any(len(format(abs(e[k]), "d")) > (5 if e[k] >= 0 else 4) for es in impl["utts"].values() for e in es
               for k in ("start", "end")) and o["format"] == "default":
            t.append("dir:default_name:number_wider_than_field")
        if any(e["start"] < 0 for es in impl["utts"].values() for e in es) and o["format"] == "default":
            t.append("dir:default_name:negative_start")
        straddle = nonzero_start = False
        for u in case["utts"]:
            for e in impl["utts"].get(u["id"], []):
                a, b = e["start"], e["end"]
                nonzero_start |= a != 0
                for _, s, en in u["ref"]:
                    if 0 <= s <= en and a < en and s < b and not (a <= s and en <= b):
                        straddle = True
        if o["has_ref"] and straddle:
            t.append("dir:token_straddles_window_edge")
        if nonzero_start:
            t.append("dir:window_start_nonzero")
    return list(dict.fromkeys(t))


def shrink(case):
    case = norm(case)
    if len(case["utts"]) > 1:
        for i in range(len(case["utts"])):
            c = dict(case)
            c["utts"] = [case["utts"][i]]
            yield c
    for k in ("partial", "retain"):
        if case[k]:
            c = dict(case)
            c[k] = False
            yield c
    if not case["quiet"]:
        yield dict(case, quiet=True)
    for k, v in case["opts"].items():
        if v != DEFAULT_OPTS[k]:
            yield dict(case, opts=dict(case["opts"], **{k: DEFAULT_OPTS[k]}))
    if case["feat_dtype"] != "float32":
        yield dict(case, feat_dtype="float32")
    if case["omit_defaults"]:
        yield dict(case, omit_defaults=False)
    if case["pad_mode"] == "replicate":
        yield dict(case, pad_mode="constant", pad_constant=PAD)
    if case["lobe"] > 0:
        c = dict(case)
        c["lobe"] = case["lobe"] - 1
        yield c
    for i, u in enumerate(case["utts"]):
        R, T = len(u["ref"]), u["T"]

        def with_utt(nu):
            c = dict(case)
            c["utts"] = list(case["utts"])
            c["utts"][i] = nu
            return c
        if T > 12 and u["ali"]:      # long utterances: cut the tail (tokens reaching into it go too)
            for T2 in (T // 2, T - T // 4):
                yield with_utt(dict(u, T=T2, ali=u["ali"][:T2], ref=[t for t in u["ref"] if max(t[1], t[2]) <= T2]))
        if R > 6:
            for idx in (range(R // 2), range(R // 2, R), range(R - R // 4), range(R // 4, R)):
                yield with_utt(dict(u, ref=[u["ref"][j] for j in idx]))
        if 1 < R <= 60:
            for d in range(len(u["ref"])):
                c = dict(case)
                c["utts"] = list(case["utts"])
                c["utts"][i] = dict(u, ref=[t for j, t in enumerate(u["ref"]) if j != d])
                yield c
