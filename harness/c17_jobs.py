"""C17: pipelines for the worker-count runs of the thorough tier.

`make_jobs(rng)` returns groups; the first job of a group is the serial run
(`--num-workers 0`), the others repeat it with workers in {1, 3} and chunk sizes {1, 2}. A step
is [function name, argv, flags] where flags says which pool options the command accepts
("wc": --num-workers and --mp-chunk-size, "w": --num-workers only, "": none).
"""

SETTINGS = [(0, None), (1, 1), (1, 2), (3, 1), (3, 2)]


def tensor(data, shape=None, dtype="long"):
    return [data, shape, dtype]


def textgrid_text(toks):
    """An IntervalTier file as `write_textgrid` prints it (precision 3)."""
    s, e = min(t[1] for t in toks), max(t[2] for t in toks)
    out = ['File type = "ooTextFile"', 'Object class = "TextGrid"', f"{0.0:0.3f}", f"{e:0.3f}", "<exists>", "1",
           '"IntervalTier"', '"transcript"', f"{s:0.3f}", f"{e:0.3f}", str(len(toks))]
    for t, a, b in toks:
        out += [f"{a:0.3f}", f"{b:0.3f}", f'"{t}"']
    return "\n".join(out) + "\n"


def make_jobs(rng):
    groups = []
    utts = ["u%02d" % i for i in range(7)]
    rng.shuffle(utts)
    p, s = rng.choice([("", ".pt"), ("p_", ".pt"), ("x.", "_s")])
    na = ["--file-prefix=" + p, "--file-suffix=" + s]
    vocab = [["a", 1], ["b", 2], ["c", 5]]
    t2i = "".join(f"{t} {i}\n" for t, i in vocab)
    i2t = "".join(f"{i} {t}\n" for t, i in vocab)

    def group(name, inputs, outputs, steps):
        jobs = [{"inputs": inputs, "outputs": outputs, "steps": steps, "workers": w, "chunk": c}
                for w, c in SETTINGS]
        groups.append({"name": name, "jobs": jobs})

    # 1. ali -> token -> ali
    alis = {}
    for u in utts:
        a = []
        for _ in range(rng.randint(1, 4)):
            a += [rng.randint(0, 3)] * rng.randint(1, 3)
        alis[p + u + s] = tensor(a)
    alis["junk.zz"] = tensor([1, 1])
    group("ali->token->ali", {"ali": {"type": "tensor_dir", "files": {"": alis}}}, ["ref", "ali2"],
          [["torch_ali_data_dir_to_torch_token_data_dir", ["{ali}", "{ref}"] + na, "wc"],
           ["torch_token_data_dir_to_torch_ali_data_dir", ["{ref}", "{ali2}"] + na, "wc"]])

    # 2. trn -> token dir -> trn
    trn = "".join("".join(rng.choice("abc") + " " for _ in range(rng.randint(0, 4))) + f"({u})\n" for u in utts)
    group("trn->token->trn", {"in_trn": {"type": "text", "text": trn}, "t2i": {"type": "text", "text": t2i},
                              "i2t": {"type": "text", "text": i2t}}, ["tok", "out_trn"],
          [["trn_to_torch_token_data_dir", ["{in_trn}", "{t2i}", "{tok}", "--skip-frame-times"] + na, "wc"],
           ["torch_token_data_dir_to_trn", ["{tok}", "{i2t}", "{out_trn}"] + na, "w"]])

    # 3. ctm -> token dir -> ctm
    ctm = ""
    timed = {}
    for u in utts[:5]:
        t, toks = 0, []
        for _ in range(rng.randint(1, 3)):
            d = rng.randint(20, 80)
            toks.append([rng.choice("abc"), t / 1000.0, (t + d) / 1000.0])
            ctm += f"{u} A {t / 1000.0} {d / 1000.0} {toks[-1][0]}\n"
            t += d + 10
        timed[u] = toks
    group("ctm->token->ctm", {"in_ctm": {"type": "text", "text": ctm}, "t2i": {"type": "text", "text": t2i},
                              "i2t": {"type": "text", "text": i2t}}, ["tok", "out_ctm"],
          [["ctm_to_torch_token_data_dir", ["{in_ctm}", "{t2i}", "{tok}"] + na, "wc"],
           ["torch_token_data_dir_to_ctm", ["{tok}", "{i2t}", "{out_ctm}"] + na, ""]])

    # 4. textgrids -> token dir -> textgrids
    tgs = {p + u + ".TextGrid": textgrid_text(toks) for u, toks in timed.items()}
    group("textgrid->token->textgrid",
          {"tg": {"type": "dir", "files": tgs}, "t2i": {"type": "text", "text": t2i},
           "i2t": {"type": "text", "text": i2t}}, ["tok", "tg2"],
          [["textgrids_to_torch_token_data_dir", ["{tg}", "{t2i}", "{tok}"] + na, "wc"],
           ["torch_token_data_dir_to_textgrids", ["{tok}", "{i2t}", "{tg2}", "--infer"] + na, "wc"]])

    # 5. subset (shortest-n reads lengths through a DataLoader, then copies through the pool)
    feat = {p + u + s: tensor([[float(i)] * 2] * rng.randint(1, 4), None, "float32") for i, u in enumerate(utts)}
    ali = {p + u + s: tensor([i, i]) for i, u in enumerate(utts[:4])}
    group("subset shortest-n", {"src": {"type": "tensor_dir", "files": {"feat": feat, "ali": ali}}}, ["dest"],
          [["subset_torch_spect_data_dir", ["{src}", "{dest}", "--shortest-n", "4", "--copy"] + na, "wc"]])

    # 6. length moments of ali and ref
    refs = {}
    for u in utts:
        t, rows = 0, []
        for _ in range(rng.randint(1, 4)):
            d = rng.randint(0, 5)
            rows.append([rng.randint(0, 3), t, t + d])
            t += d
        refs[p + u + s] = tensor(rows, [len(rows), 3])
    group("ali length moments", {"ali": {"type": "tensor_dir", "files": {"": alis}}}, ["m_txt"],
          [["print_torch_ali_data_dir_length_moments", ["{ali}", "{m_txt}", "--exclude-ids", "0"] + na, "wc"]])
    group("ref length moments", {"ref": {"type": "tensor_dir", "files": {"": refs}}}, ["m_txt"],
          [["print_torch_ref_data_dir_length_moments", ["{ref}", "{m_txt}", "--quiet", "--bessel"] + na, "wc"]])

    # 7. MVN statistics, grouped
    id2gid = "".join(f"{u} g{i % 2}\n" for i, u in enumerate(utts))
    group("mvn stats", {"feat": {"type": "tensor_dir", "files": {"": feat}},
                        "id2gid": {"type": "text", "text": id2gid}}, ["stats_pt"],
          [["compute_mvn_stats_for_torch_feat_data_dir", ["{feat}", "{stats_pt}", "--id2gid", "{id2gid}"] + na, "w"]])
    return groups
