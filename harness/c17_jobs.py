"""C17: pipelines for the worker-count runs.

A *group* is one pipeline of commands on one corpus; its first job is the serial run
(`--num-workers 0`), the others repeat it with other worker counts / chunk sizes and must leave
the same output files and printed figures. A step is [function name, argv, flags] where flags
says which pool options the command accepts ("wc": --num-workers and --mp-chunk-size,
"w": --num-workers only, "": none).

Three families of groups:

* `make_jobs(rng)` — the thorough tier's runs on a 7-utterance corpus, workers {0,1,3} x chunk
  {1,2}, real `spawn` pools.
* `make_small_groups(rng, tier)` — the SAME pipelines (every command that is routed through
  `_multiprocessor_pattern(_generator)` or a `DataLoader(num_workers=...)`) on the corpora a pool is
  most easily wrong on: the EMPTY corpus, ONE utterance (fewer items than workers, fewer items than
  the chunk size) and THREE utterances (a chunk of 2 leaves a remainder), workers {0,1,2} x chunk
  {1,2}. Every group is swept with the pool's start method substituted by `fork` (start-up of a
  worker in milliseconds instead of a fresh `import torch`; the pool logic — size, initializer
  arguments, `imap_unordered`, chunking, accumulation of the results — is the library's); with the
  library's own `spawn` start method the empty corpus is run for every pipeline (a pool that has
  nothing to do never waits for its workers) and, in the quick tier, a rotating sample of the
  non-empty ones (all of them in the thorough tier).
"""

SETTINGS = [(0, None), (1, 1), (1, 2), (3, 1), (3, 2)]
SMALL_SETTINGS = [(0, None), (1, 1), (2, 1), (2, 2)]
SMALL_SIZES = [0, 1, 3]


def tensor(data, shape=None, dtype="long"):
    return [data, shape, dtype]


def textgrid_text(toks):
    """An IntervalTier file as `write_textgrid` prints it (precision 3)."""
    s, e = min(t[1] for t in toks), max(t[2] for t in toks)
    out = ['File type = "ooTextFile"', 'Object class = "TextGrid"', f"{0.0:0.3f}", f"{e:0.3f}", "<exists>", "1",
           '"IntervalTier"', '"transcript"', f"{s:0.3f}", f"{e:0.3f}", str(len(toks))]
    for t, a, b in toks:
        out += [f"{a:0.3f}", f"{b:0.3f}", f'"{t}"']
    return "\n".join(out) + "\n"


def pipelines(rng, utts, p, s, n_timed=None):
    """-> list of (name, inputs, outputs, steps) over the utterance ids `utts` (may be empty)."""
    out = []
    na = ["--file-prefix=" + p, "--file-suffix=" + s]
    vocab = [["a", 1], ["b", 2], ["c", 5]]
    t2i = "".join(f"{t} {i}\n" for t, i in vocab)
    i2t = "".join(f"{i} {t}\n" for t, i in vocab)
    N = len(utts)

    # 1. ali -> token -> ali
    alis = {}
    for u in utts:
        a = []
        for _ in range(rng.randint(1, 4)):
            a += [rng.randint(0, 3)] * rng.randint(1, 3)
        alis[p + u + s] = tensor(a)
    alis["junk.zz"] = tensor([1, 1])
    out.append(("ali->token->ali", {"ali": {"type": "tensor_dir", "files": {"": alis}}}, ["ref", "ali2"],
                [["torch_ali_data_dir_to_torch_token_data_dir", ["{ali}", "{ref}"] + na, "wc"],
                 ["torch_token_data_dir_to_torch_ali_data_dir", ["{ref}", "{ali2}"] + na, "wc"]]))

    # 2. trn -> token dir -> trn
    trn = "".join("".join(rng.choice("abc") + " " for _ in range(rng.randint(0, 4))) + f"({u})\n" for u in utts)
    out.append(("trn->token->trn", {"in_trn": {"type": "text", "text": trn}, "t2i": {"type": "text", "text": t2i},
                                    "i2t": {"type": "text", "text": i2t}}, ["tok", "out_trn"],
                [["trn_to_torch_token_data_dir", ["{in_trn}", "{t2i}", "{tok}", "--skip-frame-times"] + na, "wc"],
                 ["torch_token_data_dir_to_trn", ["{tok}", "{i2t}", "{out_trn}"] + na, "w"]]))

    # 3. ctm -> token dir -> ctm
    ctm = ""
    timed = {}
    for u in utts[:n_timed]:
        t, toks = 0, []
        for _ in range(rng.randint(1, 3)):
            d = rng.randint(20, 80)
            toks.append([rng.choice("abc"), t / 1000.0, (t + d) / 1000.0])
            ctm += f"{u} A {t / 1000.0} {d / 1000.0} {toks[-1][0]}\n"
            t += d + 10
        timed[u] = toks
    out.append(("ctm->token->ctm", {"in_ctm": {"type": "text", "text": ctm}, "t2i": {"type": "text", "text": t2i},
                                    "i2t": {"type": "text", "text": i2t}}, ["tok", "out_ctm"],
                [["ctm_to_torch_token_data_dir", ["{in_ctm}", "{t2i}", "{tok}"] + na, "wc"],
                 ["torch_token_data_dir_to_ctm", ["{tok}", "{i2t}", "{out_ctm}"] + na, ""]]))

    # 4. textgrids -> token dir -> textgrids
    tgs = {p + u + ".TextGrid": textgrid_text(toks) for u, toks in timed.items()}
    tgs["notes.txt"] = "not a TextGrid\n"
    out.append(("textgrid->token->textgrid",
                {"tg": {"type": "dir", "files": tgs}, "t2i": {"type": "text", "text": t2i},
                 "i2t": {"type": "text", "text": i2t}}, ["tok", "tg2"],
                [["textgrids_to_torch_token_data_dir", ["{tg}", "{t2i}", "{tok}"] + na, "wc"],
                 ["torch_token_data_dir_to_textgrids", ["{tok}", "{i2t}", "{tg2}", "--infer"] + na, "wc"]]))

    # 5. subset (shortest-n reads the lengths through a DataLoader, then copies through the pool;
    #    first-ratio and the --utt-list forms go straight to the pool) on a directory that is NOT a
    #    consistent SpectDataSet: ali/ covers part of the utterances and has one that feat/ lacks,
    #    ref/ lacks the first utterance, has the stray too and a name that does not match; requests
    #    name utterances of feat/, the stray and an id that exists nowhere
    feat = {p + u + s: tensor([[float(i)] * 2] * rng.randint(1, 4), None, "float32") for i, u in enumerate(utts)}
    ali = {p + u + s: tensor([i, i]) for i, u in enumerate(utts[:4])}
    ali[p + "zz_stray" + s] = tensor([7, 7, 7])
    ref = {p + u + s: tensor([[1, 0, i + 1]], [1, 3]) for i, u in enumerate(utts[1:])}
    ref[p + "zz_stray" + s] = tensor([[2, 0, 3]], [1, 3])
    ref["notes.txt"] = tensor([0])
    asked = [u for u in utts if rng.random() < 0.7] + ["zz_stray", "nowhere"]
    rng.shuffle(asked)
    crit = rng.choice([["--shortest-n", str(N // 2 + 1)], ["--first-ratio", "0.75"], ["--longest-n", str(N + 1)],
                       ["--utt-list"] + asked, ["--utt-list-file", "{utt_list}"], ["--utt-list"] + asked])
    mode = rng.choice([["--copy"], ["--copy"], ["--symlink"], []])
    out.append(("subset " + " ".join(crit[:1] + mode),
                {"src": {"type": "tensor_dir", "files": {"feat": feat, "ali": ali, "ref": ref}},
                 "utt_list": {"type": "text", "text": "".join(u + "\n" for u in asked)}}, ["dest"],
                [["subset_torch_spect_data_dir", ["{src}", "{dest}"] + mode + crit + na, "wc"]]))

    # 6. length moments of ali and ref
    refs = {}
    for u in utts:
        t, rows = 0, []
        for _ in range(rng.randint(1, 4)):
            d = rng.randint(0, 5)
            rows.append([rng.randint(0, 3), t, t + d])
            t += d
        refs[p + u + s] = tensor(rows, [len(rows), 3])
    out.append(("ali length moments", {"ali": {"type": "tensor_dir", "files": {"": alis}}}, ["m_txt"],
                [["print_torch_ali_data_dir_length_moments", ["{ali}", "{m_txt}", "--exclude-ids", "0"] + na, "wc"]]))
    out.append(("ref length moments", {"ref": {"type": "tensor_dir", "files": {"": refs}}}, ["m_txt"],
                [["print_torch_ref_data_dir_length_moments", ["{ref}", "{m_txt}", "--quiet", "--bessel"] + na, "wc"]]))

    # 7. MVN statistics, grouped
    id2gid = "".join(f"{u} g{i % 2}\n" for i, u in enumerate(utts))
    out.append(("mvn stats", {"feat": {"type": "tensor_dir", "files": {"": feat}},
                              "id2gid": {"type": "text", "text": id2gid}}, ["stats_pt"],
                [["compute_mvn_stats_for_torch_feat_data_dir", ["{feat}", "{stats_pt}", "--id2gid", "{id2gid}"] + na, "w"]]))

    # 8. chunking a SpectDataSet directory (feat + ali + ref) into windows; the directory is not
    #    consistent: ali/ has an utterance feat/ lacks, ref/ lacks the last utterance of a corpus of
    #    three (SpectDataSet keeps the utterances every sub-directory has), feat/ has one more
    cfeat, cali, cref = {}, {}, {}
    for i, u in enumerate(utts):
        T = rng.randint(2, 6)
        cfeat[p + u + s] = tensor([[float(i), float(t)] for t in range(T)], None, "float32")
        cali[p + u + s] = tensor([(t // 2) % 3 for t in range(T)])
        if i < 2 or N != 3:
            cref[p + u + s] = tensor([[1, 0, T // 2], [2, T // 2, T]], [2, 3])
    cali[p + "zz_stray" + s] = tensor([1, 1, 2])
    cfeat[p + "zz_featonly" + s] = tensor([[9.0, 0.0], [9.0, 1.0]], None, "float32")
    policy = rng.choice([["--policy", "fixed", "--lobe-size", "1"], ["--policy", "ali"], ["--policy", "ref"],
                         ["--policy", "fixed", "--lobe-size", "1", "--pad-mode", "replicate"]])
    out.append(("chunk " + " ".join(policy),
                {"src": {"type": "tensor_dir", "files": {"feat": cfeat, "ali": cali, "ref": cref}}}, ["dest"],
                [["chunk_torch_spect_data_dir", ["{src}", "{dest}", "--quiet"] + policy + na, "wc"]]))
    return out


def affixes(rng):
    return rng.choice([("", ".pt"), ("p_", ".pt"), ("x.", "_s")])


def make_jobs(rng):
    """Thorough tier: 7 utterances, workers {0,1,3} x chunk {1,2}, real spawn pools."""
    utts = ["u%02d" % i for i in range(7)]
    rng.shuffle(utts)
    p, s = affixes(rng)
    groups = []
    for name, inputs, outputs, steps in pipelines(rng, utts, p, s, n_timed=5):
        jobs = [{"inputs": inputs, "outputs": outputs, "steps": steps, "workers": w, "chunk": c, "start": "spawn"}
                for w, c in SETTINGS]
        groups.append({"name": name, "n_utts": len(utts), "start": "spawn", "jobs": jobs})
    return groups


def pool_steps(steps):
    """Number of steps that open a multiprocessing pool (flags "wc")."""
    return sum(1 for _, _, fl in steps if fl == "wc")


def make_small_groups(rng, tier):
    """Quick and thorough tiers: every pipeline on 0, 1 and 3 utterances, workers {0,1,2} x chunk
    {1,2}; see the module docstring for which groups run under `fork` and which under `spawn`."""
    groups = []
    per_size = {}
    for n in SMALL_SIZES:
        utts = ["u%d" % i for i in range(n)]
        rng.shuffle(utts)
        p, s = affixes(rng)
        per_size[n] = pipelines(rng, utts, p, s)

    def add(n, pl, start, settings):
        name, inputs, outputs, steps = pl
        jobs = [{"inputs": inputs, "outputs": outputs, "steps": steps, "workers": w, "chunk": c, "start": start}
                for w, c in settings]
        groups.append({"name": name, "n_utts": n, "start": start, "jobs": jobs})

    for n in SMALL_SIZES:
        for pl in per_size[n]:
            add(n, pl, "fork", SMALL_SETTINGS)
    # the library's own start method: the empty corpus for every pipeline ...
    for pl in per_size[0]:
        add(0, pl, "spawn", [(0, None), (1, 1), (2, 2)])
    # ... and the non-empty ones: all (thorough) or a rotating sample (quick): one utterance with two
    # workers, three utterances with chunks of two, one utterance with one worker
    if tier == "thorough":
        for n in (1, 3):
            for pl in per_size[n]:
                add(n, pl, "spawn", SMALL_SETTINGS)
    else:
        pooled = [i for i, pl in enumerate(per_size[1]) if pool_steps(pl[3]) >= 1]
        picks = rng.sample(pooled, 3)
        add(1, per_size[1][picks[0]], "spawn", [(0, None), (2, 1)])
        add(3, per_size[3][picks[1]], "spawn", [(0, None), (2, 2)])
        add(1, per_size[1][picks[2]], "spawn", [(0, None), (1, 2)])
    return groups


def cost(job, n_utts):
    """Rough wall-clock estimate (s) of one job, for spreading jobs over parallel subprocesses."""
    if "cost" in job:
        return job["cost"]
    if job["workers"] == 0:
        return 0.05
    if job["start"] == "fork" or n_utts == 0:
        return 0.1 * len(job["steps"])
    return 0.1 + 2.5 * job["workers"] * pool_steps(job["steps"])
