"""C03 — how a batch is handed to the real code: documented signatures, call styles, tensor layouts,
dtypes, logits classes and the independent log-softmax oracle.

The signatures are written down here as documented at the pinned tree (names, order, defaults). A
call style that omits an argument relies on the default written HERE, and a positional style relies
on the ORDER written here, so a changed default or a reordered/swapped parameter in the library
shows up as a wrong target set / a wrong loss.
"""
import math
import random
from fractions import Fraction

# ---------------------------------------------------------------------------- documented signatures
ORDER = {
    # optimal_completion(ref, hyp, ...) and OptimalCompletion(...)(ref, hyp)
    "targets": ["eos", "include_eos", "batch_first", "ins_cost", "del_cost", "sub_cost", "padding",
                "exclude_last", "warn"],
    # hard_optimal_completion_distillation_loss(logits, ref, hyp, ...)
    "loss_functional": ["eos", "include_eos", "batch_first", "ins_cost", "del_cost", "sub_cost", "weight",
                        "reduction", "ignore_index", "warn"],
    # HardOptimalCompletionDistillationLoss(...)(logits, ref, hyp, warn)
    "loss_module": ["eos", "include_eos", "batch_first", "ins_cost", "del_cost", "sub_cost", "weight",
                    "reduction", "ignore_index"],
}
DOC_DEFAULTS = {
    "targets": {"eos": None, "include_eos": True, "batch_first": False, "ins_cost": 1.0, "del_cost": 1.0,
                "sub_cost": 1.0, "padding": -100, "exclude_last": False, "warn": True},
    "loss_functional": {"eos": None, "include_eos": True, "batch_first": False, "ins_cost": 1.0,
                        "del_cost": 1.0, "sub_cost": 1.0, "weight": None, "reduction": "mean",
                        "ignore_index": -2, "warn": True},
    "loss_module": {"eos": None, "include_eos": True, "batch_first": False, "ins_cost": 1.0,
                    "del_cost": 1.0, "sub_cost": 1.0, "weight": None, "reduction": "mean",
                    "ignore_index": -100},
}
STYLES = ["keyword", "minimal", "mixed", "positional"]
DTYPE_RANGE = {"int64": (-2 ** 63, 2 ** 63 - 1), "int32": (-2 ** 31, 2 ** 31 - 1),
               "int16": (-2 ** 15, 2 ** 15 - 1), "int8": (-128, 127), "uint8": (0, 255)}
LAYOUTS = ["contig", "tview", "strided", "expand"]
LOGIT_LAYOUTS = ["contig", "permuted", "strided", "expand_seq"]
LOGIT_CLASSES = ["normal", "large", "offset_pos", "offset_neg", "ties", "dominant", "neg_inf_offtarget"]
NEG_INF_SENTINEL = -10 ** 9  # stands for a log-probability of -inf at a class that is never a target


def _is_default(v, d):
    if d is None or v is None or isinstance(d, (bool, str)) or isinstance(v, (bool, str)):
        return v is d or (isinstance(v, str) and v == d)
    return type(v) in (int, float) and v == d


def split_args(values, order, defaults, style):
    """(positional list, keyword dict) for one call style."""
    if style == "keyword":
        return [], {k: values[k] for k in reversed(order)}
    if style == "minimal":
        return [], {k: values[k] for k in order if not _is_default(values[k], defaults[k])}
    if style == "mixed":
        return ([values[k] for k in order[:3]],
                {k: values[k] for k in reversed(order[3:]) if not _is_default(values[k], defaults[k])})
    return [values[k] for k in order], {}


def cost_values(case):
    costs = [Fraction(case[k]) for k in ("ins", "del", "sub")]
    if case.get("cost_type", "float") == "int" and all(c.denominator == 1 for c in costs):
        return [int(c) for c in costs]
    return [float(c) for c in costs]


# ---------------------------------------------------------------------------- token tensors
def fits(tokens, dtype_name):
    lo, hi = DTYPE_RANGE[dtype_name]
    return all(lo <= t <= hi for t in tokens)


def make_tokens(cols, L, bf, dtype_name, layout, garbage):
    """The logical batch of N columns of length L as a tensor of shape (N, L) / (L, N) in the
    requested memory layout. Returns (tensor handed to the library, backing tensor that must stay
    untouched)."""
    import torch
    dtype = getattr(torch, dtype_name)
    N = len(cols)
    m = torch.tensor(cols, dtype=dtype).reshape(N, L)
    t = m if bf else m.t()
    if layout == "expand" and N >= 1 and all(c == cols[0] for c in cols):
        col = torch.tensor(cols[0], dtype=dtype).reshape(L)
        view = col.unsqueeze(0).expand(N, L) if bf else col.unsqueeze(1).expand(L, N)
        return view, col
    if layout == "tview":
        base = t.t().contiguous()
        return base.t(), base
    if layout == "strided":
        S0, S1 = t.shape
        g = torch.tensor(garbage or [0], dtype=dtype)
        n_el = (2 * S0 + 1) * (2 * S1 + 3)
        base = g[torch.arange(n_el) % len(g)].reshape(2 * S0 + 1, 2 * S1 + 3).clone()
        view = base[1::2, 2::2][:S0, :S1]
        view.copy_(t)
        return view, base
    base = t.contiguous()
    return base, base


# ---------------------------------------------------------------------------- logits
def logit_values(case):
    """[k][n][v] python floats (already rounded to the case's logits dtype) from the case's own seed
    and magnitude class. Class `neg_inf_offtarget` puts -inf at `case["dead_class"]`, a class that
    is no token of any reference column (so it is never a target)."""
    import numpy as np
    N = len(case["refs"])
    H = len(case["hyps"][0]) if N else 0
    V = case["V"]
    cls = case.get("logit_class", "normal")
    r = random.Random(case["lseed"])
    rows = H if case.get("logit_layout", "contig") != "expand_seq" else min(H, 1)
    vals = []
    for _ in range(rows):
        mat = []
        for _ in range(N):
            if cls == "large":
                vec = [r.gauss(0.0, 80.0) for _ in range(V)]
            elif cls == "offset_pos":
                off = r.choice([1.0e3, 1.0e4, 3.0e4])
                vec = [off + r.gauss(0.0, 2.5) for _ in range(V)]
            elif cls == "offset_neg":
                off = -r.choice([1.0e3, 1.0e4, 3.0e4])
                vec = [off + r.gauss(0.0, 2.5) for _ in range(V)]
            elif cls == "ties":
                x = r.choice([0.0, -3.5, 120.0])
                vec = [x for _ in range(V)]
            elif cls == "dominant":
                vec = [r.gauss(0.0, 1.0) for _ in range(V)]
                vec[r.randrange(V)] += r.choice([40.0, 110.0, 800.0])
            else:
                vec = [r.gauss(0.0, 2.5) for _ in range(V)]
            if cls == "neg_inf_offtarget" and case.get("dead_class") is not None:
                vec[case["dead_class"]] = float("-inf")
            mat.append(vec)
        vals.append(mat)
    if rows < H:
        vals = [vals[0] for _ in range(H)]
    npdt = np.float64 if case.get("logits_dtype", "float32") == "float64" else np.float32
    return [[[float(npdt(x)) for x in vec] for vec in mat] for mat in vals]


def make_logits(case, vals):
    """(H, N, V) values -> tensor in the call's layout ((N, H, V) under batch_first) and memory layout.
    Returns (tensor, backing tensor)."""
    import torch
    N = len(case["refs"])
    H = len(vals)
    V = case["V"]
    dtype = getattr(torch, case.get("logits_dtype", "float32"))
    t = torch.tensor(vals, dtype=dtype).reshape(H, N, V)
    if case["batch_first"]:
        t = t.transpose(0, 1)
    lay = case.get("logit_layout", "contig")
    if lay == "permuted":
        base = t.permute(2, 1, 0).contiguous()
        return base.permute(2, 1, 0), base
    if lay == "strided":
        A, B, _ = t.shape
        base = torch.full((A + 1, 2 * B + 1, V + 2), 7.25, dtype=dtype)
        view = base[1:, 1::2, 1:V + 1]
        view.copy_(t)
        return view, base
    if lay == "expand_seq" and H >= 1:
        row = torch.tensor(vals[0], dtype=dtype).reshape(1, N, V)
        view = row.expand(H, N, V)
        if case["batch_first"]:
            view = view.transpose(0, 1)
        return view, row
    base = t.contiguous()
    return base, base


def lsm_oracle(vec):
    """log-softmax of one logits vector in double precision, independent of torch: max-shift +
    fsum. Entries that are -inf stay -inf."""
    m = max(vec)
    s = math.fsum(math.exp(x - m) for x in vec if x != float("-inf"))
    lse = m + math.log(s)
    return [x - lse if x != float("-inf") else float("-inf") for x in vec]
