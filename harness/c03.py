"""C03 — optimal-completion targets are exactly the distance-preserving next tokens; hard OCD loss.

Correspondence: the real `optimal_completion` / `OptimalCompletion` and
`hard_optimal_completion_distillation_loss` / `HardOptimalCompletionDistillationLoss` are run
in-process on padded batches handed over in every documented way (call style, memory layout, token
dtype, cost type — see `c03_call.py`); the Lean driver runs the batch-level model
(`Model/OptCompletion.lean`, `Model/OptCompletionBatch.lean`) on the tensors in the layout the call
used and, independently of the mask/sort/scatter path, the oracle `best (p ++ [t]) == best p`
through the shared DP with the true costs.

Streams
* exact: targets (integers; costs are dyadic so every float32 DP entry is exact). The verdict on the
  implementation's own output tensor is computed twice: by the Lean `rowCheck` (proved sound and
  complete for the property, `C03_rowcheck`) and by the python predicate; they must agree;
* tolerance: loss (logits of several magnitude classes, float32 and float64; an independent
  double-precision log-softmax is handed to the model as exact rationals; results compared with a
  relative tolerance of 1e-5 (float32) / 1e-9 (float64));
* ragged / cost-order stream (seed C03-g1): short references next to a full-length one, hypotheses longer than
  the short references, arbitrary values stored past each reference's end, cost triples cycled over every order
  class incl. zero costs (zero costs: correspondence with the model is enforced; the deviation from the oracle is
  the known finding `C03.targets.zero_cost_minimal_positions`, reported only when implementation = model);
* malformed: shape errors (must raise) and the excluded point — an empty counted hypothesis
  together with exclude_last — which is run but NEVER judged; zero-size batches (N = 0, outside the
  property's N >= 1) and non-long reference tensors (outside the documented "long tensor") may be
  rejected, but when they are accepted the result is judged like any other.
"""
import itertools
import warnings
from fractions import Fraction

from common.framework import PropertyCheck, frac_str, parse_frac

import c03_call as cc

COSTS = ["1/4", "1/2", "1", "3/2", "2", "3", "4"]
# the wider grid of the cost-ORDER stream: every value is k/8, so float32 DP entries stay exact
COST_GRID = ["0", "1/8", "1/4", "1/2", "3/4", "1", "3/2", "2", "3", "4", "6"]
PADS = [-100, -2, 77, 2 ** 40 + 3]
TOL = {"float32": 1e-5, "float64": 1e-9}
RESERVED = set(PADS) | {-1}


def _f(s):
    return float(Fraction(s))


# ------------------------------------------------------------------ python-side lengths
def cut_len(toks, eos, include_eos):
    if eos is None:
        return len(toks)
    l = len(toks)
    for i, t in enumerate(toks):
        if t == eos:
            l = i
            break
    if include_eos and l != len(toks):
        l += 1
    return l


def _cmp(a, b):
    return "<" if a < b else ">" if a > b else "="


def cost_order(costs):
    """The ORDER class of a cost triple (ins, del, sub): how sub compares with ins, with del and with
    ins + del (a substitution dearer than deleting + inserting is never used), how ins compares with
    del, which costs are zero and whether any is fractional."""
    i, d, s = (Fraction(c) for c in costs)
    return (_cmp(s, i), _cmp(s, d), _cmp(s, i + d), _cmp(i, d), (i == 0, d == 0, s == 0),
            any(c.denominator != 1 for c in (i, d, s)))


def cost_classes(grid, zero):
    """order class -> the triples of grid^3 in it (with / without triples that have a zero cost)."""
    out = {}
    for t in itertools.product(grid, repeat=3):
        if ("0" in t) != zero:
            continue
        out.setdefault(cost_order(t), []).append(t)
    return [out[k] for k in sorted(out, key=repr)]


def has_zero_cost(case):
    return any(Fraction(case[k]) == 0 for k in ("ins", "del", "sub"))


def late_reentry(r, h, costs):
    """Is there a prefix of h with MORE tokens than the reference r whose best reachable distance is
    still attained strictly inside r (so that it has a target although the hypothesis already overran
    the reference)? Plain sequential DP in exact arithmetic; only used to steer the generator."""
    ins, dl, sub = (Fraction(c) for c in costs)
    row = [j * dl for j in range(len(r) + 1)]
    for k, t in enumerate(h, 1):
        new = [row[0] + ins]
        for j in range(1, len(r) + 1):
            new.append(min(row[j] + ins, row[j - 1] + (0 if r[j - 1] == t else sub), new[j - 1] + dl))
        row = new
        if k > len(r) and min(row[:-1], default=None) == min(row):
            return True
    return False


def ragged_cols(rng, N, R, H, alpha, eos, other, ie, costs=("1", "1", "1")):
    """A ragged batch: one reference fills the reference dimension, the others are short (cut length
    0..R-2) and are followed by the eos and arbitrary stored values - tokens of the same column's
    hypothesis, reference tokens, the eos, a value that occurs nowhere else. The hypotheses carry more
    tokens than the short references can absorb, in the shapes that make an early reference position
    optimal again late in the hypothesis: mismatching tokens followed by the reference re-read from its
    start, every reference token stuttered, the reference followed by extra tokens, or random."""
    full = rng.randrange(N)
    refs, hyps = [], []
    for n in range(N):
        r, h = _ragged_pair(rng, R if n == full else rng.randint(0, max(0, R - 2)), R, H, alpha, eos, other, ie)
        if n != full and rng.random() < 0.7:
            # steer: a prefix that overran the short reference and still has a target
            for _ in range(12):
                cr, ch = r[:cut_len(r, eos, ie)], h[:cut_len(h, eos, ie)]
                if late_reentry(cr, ch, costs):
                    break
                r, h = _ragged_pair(rng, rng.randint(1, max(1, R - 2)), R, H, alpha, eos, other, ie)
        refs.append(r)
        hyps.append(h)
    return refs, hyps


def _ragged_pair(rng, L, R, H, alpha, eos, other, ie):
    r = [rng.choice(alpha) for _ in range(L)]
    shape = rng.choice(["reread", "reread", "stutter", "overrun", "random"])
    miss = [a for a in alpha if a not in r] + [other]
    if shape == "reread":
        m = rng.randint(1, max(1, H - 1))
        x = rng.choice(miss)
        h = [x if rng.random() < 0.8 else rng.choice(miss) for _ in range(m)]
        h += r[:rng.randint(0, len(r))] + ([eos] if ie and rng.random() < 0.5 else [])
    elif shape == "stutter":
        h = [t for t in r for _ in range(rng.choice([2, 2, 3]))] or [rng.choice(alpha)]
    elif shape == "overrun":
        h = r + [rng.choice(alpha + [other]) for _ in range(rng.randint(1, H))]
    else:
        h = [rng.choice(alpha + [other]) for _ in range(rng.randint(1, H))]
    h = h[:H]
    if len(h) < H:
        h.append(eos)
        h += [rng.choice(alpha + [eos, other]) for _ in range(H - len(h))]
    if L < R:
        r.append(eos)
        pool = rng.choice([h, [t for t in h if t != eos] or h, alpha + [eos, other], r, [eos]])
        r += [rng.choice(pool) for _ in range(R - len(r))]
    return r, h


def gen_col(rng, L, alphabet, eos, dup_bias, junk=-1):
    """A padded column of length L. With eos set and present: tokens, eos, then garbage that
    deliberately repeats tokens of the valid part (and `junk` / eos)."""
    alpha = [a for a in alphabet if a != eos] or [1]
    if dup_bias and len(alpha) > 1 and rng.random() < 0.6:
        alpha = rng.sample(alpha, max(1, len(alpha) - 1))  # fewer symbols -> more repeats
    if eos is None or L == 0:
        return [rng.choice(alpha) for _ in range(L)]
    p = rng.choice(list(range(L + 1)) + [0, L, L])  # L = no eos in the data
    out = [rng.choice(alpha) for _ in range(min(p, L))]
    if p < L:
        out.append(eos)
        filler = alpha + alpha + [eos, junk]
        out += [rng.choice(filler) for _ in range(L - p - 1)]
    return out


def pick_alphabet(rng, V, kind):
    """V + 1 distinct token values, none of them a padding value or -1."""
    if kind == "negative":
        start = rng.choice([-9, -40, -3000])
        vals = [start - 3 * i for i in range(V + 1)]
    elif kind == "big":
        vals = [rng.choice([2 ** 33, 2 ** 40, -2 ** 45, 2 ** 62]) + 7 * i + 1 for i in range(V + 1)]
    elif kind == "mixed":
        pool = [-2 ** 35, -7, 0, 3, 200, 30000, 2 ** 31 + 5, 2 ** 53 + 1, 2 ** 53 + 2]
        vals = rng.sample(pool, V + 1)
    elif kind == "byte":
        vals = rng.sample(range(0, 77), V + 1)
    else:
        vals = list(range(V + 1))
    return [v for v in vals if v not in RESERVED] or [1]


class C03(PropertyCheck):
    pid = "C03"
    title = "optimal-completion targets / hard OCD loss"
    rule = ("padded batches N<=4, R,H<=6 (thorough <=9), alphabets of 1-4 symbols so that references repeat "
            "tokens (small, negative, > 2^31, > 2^53 and mixed token values), eos in {unset, in data at every "
            "position incl. 0, absent, negative}, garbage after eos repeating valid tokens, every cost triple of "
            "{1/4,1/2,1,3/2,2,3,4}^3 (float or int arguments) plus triples of {0,1/8,...,6}^3 cycled over every ORDER "
            "class (sub vs ins, sub vs del, sub vs ins+del, ins vs del, fractional; a quarter of them with zero "
            "costs, judged against the known finding C03.targets.zero_cost_minimal_positions), ragged batches "
            "(one reference fills the reference dimension R<=6/9, the others are short and followed by eos + "
            "stored values equal to hypothesis/reference tokens; hypotheses up to R+2 long that overrun the "
            "short references: re-read, stutter, overrun shapes, steered towards prefixes longer than the "
            "reference that still have a target), include_eos x exclude_last x batch_first x warn, "
            "functional and module entry points x call styles {all keywords, only non-defaults, mixed, all "
            "positional} (documented defaults and parameter order are written in the harness), memory layouts "
            "{contiguous, transposed storage, strided slice of a wider buffer, expanded} per tensor, hypothesis "
            "dtypes int64/int32/int16/int8/uint8; exhaustive 2-symbol grid for short lengths; loss with logits of "
            "seven magnitude classes (normal, sd 80, offsets +-1e3..3e4, ties, dominant class, -inf at a class "
            "that is no target), float32 and float64, four logits layouts, all reductions, optional class "
            "weights, ignore_index below, inside the gap and above the classes. non-trivial: some column with "
            "both cut sequences non-empty, different, and not all tokens equal; distinct by (cut ref, cut hyp, "
            "costs, option cell)")
    assumptions = [
        "float32 DP arithmetic is exact on the dyadic cost grid for these sizes (verified: targets are integers "
        "compared exactly with the rational model)",
        "loss: the log-softmax handed to the model is computed by the harness in double precision (max-shift + "
        "fsum), not by torch; float summation error covered by a relative tolerance of 1e-5 (float32 logits) / "
        "1e-9 (float64 logits)",
        "torch primitives sort/gather/masked_select/masked_scatter_/cross_entropy at their documented meaning",
        "the excluded point of the property (no counted hypothesis token together with exclude_last) is generated "
        "only in the malformed stream and never judged; N = 0 and non-long reference tensors may be rejected",
    ]
    exhaustive = {"quick": False, "thorough": False}
    quick_budget_s = 150
    thorough_budget_s = 1200

    # ------------------------------------------------------------------ generators
    def _decorate(self, rng, c, plain=0.25):
        """How the batch is handed over: call style, cost type, layouts, hypothesis dtype, warn."""
        if rng.random() < plain:
            return c
        c["call"] = rng.choice(cc.STYLES)
        c["cost_type"] = rng.choice(["float", "float", "int"])
        c["warn"] = rng.random() < 0.5
        c["layout"] = [rng.choice(cc.LAYOUTS), rng.choice(cc.LAYOUTS)]
        # a narrower hypothesis tensor only when every token AND the eos are values of that dtype
        # (torch wraps an out-of-range eos scalar: eos = -2**35 "equals" token 0 of a uint8 tensor)
        toks = [t for col in c["hyps"] for t in col] + ([c["eos"]] if c["eos"] is not None else [])
        dt = rng.choice(["int64", "int64", "int32", "int16", "int8", "uint8"])
        c["tok_dtype"] = ["int64", dt if cc.fits(toks, dt) else "int64"]
        return c

    def _random_targets(self, rng, i, maxlen, cells, costs, zero_h=True, defaults=False):
        ie, ex, bf = cells[i % 8]
        N = rng.choice([1, 2, 3, 4])
        R = rng.choice(list(range(1, maxlen + 1)))
        H = rng.choice(list(range(0 if zero_h else 1, maxlen + 1)))
        V = rng.choice([1, 2, 2, 3, 3, 4])
        kind = rng.choice(["small", "small", "small", "negative", "big", "mixed", "byte"])
        alphabet = pick_alphabet(rng, V, kind)
        eos_kind = rng.choice(["unset", "member", "member", "member", "absent", "negative"])
        if eos_kind == "unset":
            eos = None
        elif eos_kind == "member":
            eos = alphabet[0]
        elif eos_kind == "absent":
            eos = next(x for x in (9, 10 ** 6 + 1, 2 ** 50) if x not in alphabet)
        else:
            eos = next(x for x in (-1, -5, -2 ** 40) if x not in alphabet)
        junk = next(x for x in (-1, 5, 2 ** 20 + 1, -13) if x not in alphabet and x != eos)
        refs = [gen_col(rng, R, alphabet, eos, True, junk) for _ in range(N)]
        hyps = [gen_col(rng, H, alphabet, eos, False, junk) for _ in range(N)]
        if rng.random() < 0.4:  # hypothesis derived from the reference: small distances, many ties
            for n in range(N):
                h = [t for t in refs[n] if rng.random() < 0.8]
                h = (h + [rng.choice(alphabet) for _ in range(H)])[:H]
                hyps[n] = h
        if ex:
            # keep the excluded point out of the judged stream
            for n in range(N):
                if cut_len(hyps[n], eos, ie) == 0:
                    if H == 0:
                        break
                    hyps[n][0] = next(a for a in alphabet + [1] if a != eos)
            if H == 0:
                ex = False
        used = {t for col in refs + hyps for t in col} | {eos}
        padding = rng.choice([p for p in PADS if p not in used])
        if defaults:
            # documented defaults, left out of the call
            if rng.random() < 0.6:
                costs = ("1", "1", "1")
            elif rng.random() < 0.6:
                costs = tuple("1" if rng.random() < 0.6 else c for c in costs)
            if rng.random() < 0.6 and -100 not in used:
                padding = -100
            if rng.random() < 0.5:
                ie = True
            if rng.random() < 0.5:
                ex = False
            if rng.random() < 0.5:
                bf = False
            if rng.random() < 0.4:
                eos = None  # its former value stays in the data as an ordinary token
        c = self._targets_case(rng, refs, hyps, eos, ie, ex, bf, costs, padding,
                               "functional" if i % 3 else "module")
        if ex and any(cut_len(h, eos, ie) == 0 for h in hyps):
            c["exclude_last"] = False
        return c

    def _ragged_targets(self, rng, i, maxlen, cells, costs):
        ie, ex, bf = cells[i % 8]
        N = rng.choice([2, 2, 3, 4])
        R = rng.randint(3, maxlen)
        H = rng.randint(2, maxlen + 2)
        alphabet = pick_alphabet(rng, rng.choice([2, 3, 4]), rng.choice(["small", "small", "negative", "big", "byte"]))
        eos = alphabet[0]
        free = [x for x in (eos + 11, eos + 12, eos + 13, eos + 14, eos + 15, eos + 16)
                if x not in RESERVED and x not in alphabet]
        alpha = alphabet[1:] or [free.pop()]
        other = free[0]
        refs, hyps = ragged_cols(rng, N, R, H, alpha, eos, other, ie, costs)
        if ex:
            for h in hyps:
                if cut_len(h, eos, ie) == 0:
                    h[0] = alpha[0]
        used = {t for col in refs + hyps for t in col} | {eos}
        c = self._targets_case(rng, refs, hyps, eos, ie, ex, bf, costs,
                               rng.choice([p for p in PADS if p not in used]),
                               "functional" if i % 3 else "module")
        c["stream"] = "ragged"
        return c

    def cases(self, rng, tier):
        scale = {"quick": 1, "thorough": 8, "search": 12}[tier]
        maxlen = 6 if tier == "quick" else 9
        cells = list(itertools.product([False, True], repeat=3))  # include_eos, exclude_last, batch_first
        triples = list(itertools.product(COSTS, repeat=3))
        rng.shuffle(triples)
        ti = 0

        def next_costs():
            nonlocal ti
            t = triples[ti % len(triples)]
            ti += 1
            return t

        # cost triples by ORDER class (sub vs ins / del / ins + del, ins vs del, fractional), positive
        # and with zero costs, cycled so that every class is reached in every run
        pos_classes = cost_classes(COST_GRID, zero=False)
        zero_classes = cost_classes(COST_GRID, zero=True)
        rng.shuffle(pos_classes)
        rng.shuffle(zero_classes)
        oi = [0, 0]

        def order_costs(zero=False):
            cl = zero_classes if zero else pos_classes
            oi[zero] += 1
            return rng.choice(cl[oi[zero] % len(cl)])

        # hand-written edges first -------------------------------------------------
        yield self._targets_case(rng, [[1, 2, 2, 3, 0, 2, 2]], [[2, 1, 2, 0, 5]], 0, True, False, False,
                                 ("1", "1", "1"), -100, "functional")
        # R == 0 / H == 0 (zero-length dimensions)
        for R, H, ex in [(0, 2, False), (0, 0, False), (3, 0, False), (0, 3, True)]:
            for bf in (False, True):
                for eos in (None, 1):
                    c = self._targets_case(rng, [[1] * R, [2] * R], [[1] * H, [2] * H], eos, False, ex and eos is None,
                                           bf, ("1", "2", "1/2"), -100, "functional" if bf else "module")
                    c["call"] = "minimal" if bf else "positional"
                    yield c

        # small exhaustive grid: alphabet {1,2} + eos 0 -----------------------------
        lim = 2 if tier == "quick" else 3
        seqs = [list(s) for s in itertools.product([1, 2, 0], repeat=lim)]
        pairs = [(r, h) for r in seqs for h in seqs]
        rng.shuffle(pairs)
        ci = 0
        for i in range(0, len(pairs), 4):
            chunk = pairs[i:i + 4]
            for ie, ex, bf in cells:
                if ex:
                    ch = [(r, h) for r, h in chunk if cut_len(h, 0, ie) >= 1]
                else:
                    ch = chunk
                if not ch:
                    continue
                ci += 1
                c = self._targets_case(rng, [r for r, _ in ch], [h for _, h in ch], 0, ie, ex, bf,
                                       next_costs(), rng.choice(PADS), "functional" if ci % 3 else "module")
                c["call"] = cc.STYLES[ci % 4]
                yield c

        # random structured stream --------------------------------------------------
        for i in range(800 * scale):
            costs = next_costs() if i % 5 else (lambda c: (c, c, c))(rng.choice(COSTS))
            yield self._decorate(rng, self._random_targets(rng, i, maxlen, cells, costs))

        # ragged batches: short references next to one that fills the reference dimension, hypotheses
        # longer than the short references, arbitrary values stored past each reference's end, every
        # ORDER class of the cost triple; every fourth case has a zero cost
        for i in range(280 * scale):
            c = self._ragged_targets(rng, i, maxlen, cells, order_costs(zero=(i % 4 == 3)))
            yield self._decorate(rng, c, plain=0.4)
        # the same order classes on the ordinary random batches
        for i in range(120 * scale):
            yield self._decorate(rng, self._random_targets(rng, i, maxlen, cells, order_costs(zero=(i % 4 == 3))))

        # documented defaults left out of the call -----------------------------------
        for i in range(160 * scale):
            c = self._random_targets(rng, i, maxlen, cells, next_costs(), defaults=True)
            self._decorate(rng, c, plain=0.0)
            c["call"] = rng.choice(["minimal", "minimal", "mixed"])
            yield c

        # reference tensors that are not long (the documentation asks for long tensors) ----
        for i in range(24 * scale):
            c = self._random_targets(rng, i, 4, cells, next_costs())
            toks = [t for col in c["refs"] + c["hyps"] for t in col] + ([c["eos"]] if c["eos"] is not None else [])
            dt = rng.choice(["int32", "int16", "int8", "uint8"])
            if not cc.fits(toks, dt):
                dt = "int32" if cc.fits(toks, "int32") else "int64"
            c["tok_dtype"] = [dt, rng.choice(["int64", dt])]
            yield c

        # zero-size batches (outside the property: N >= 1) ----------------------------
        for i in range(8):
            R, H = rng.choice([0, 2, 3]), rng.choice([0, 1, 3])
            c = self._targets_case(rng, [], [], rng.choice([None, 0]), bool(i & 1), False, bool(i & 2),
                                   next_costs(), -100, "functional" if i % 3 else "module")
            c.update(kind="zero_batch", R=R, H=H)
            yield c

        # loss (tolerance stream) ---------------------------------------------------
        for i in range(240 * scale):
            yield self._random_loss(rng, i, maxlen, cells, next_costs() if i % 4 else ("1", "1", "1"))
        # ragged batches / cost order classes (positive costs) for the loss
        for i in range(60 * scale):
            yield self._random_loss(rng, i, maxlen, cells, order_costs(), ragged=True)

        # loss with a target that is no class index (audit): cross_entropy raises IndexError ("Target ... is
        # out of bounds"); the model must raise the same (C03_loss_rejects_class) instead of reading the
        # log-probability at a clamped class. The first token of one reference is always a target of the empty
        # prefix, so the error is certain.
        for i in range(16 * scale):
            c = self._random_loss(rng, i, min(maxlen, 4), cells, next_costs() if i % 4 else ("1", "1", "1"))
            V, eos, ii = c["V"], c["eos"], c["ignore_index"]
            bad = [t for t in (V, V + 1, V + 40, -1, -3, -101, 2 ** 40) if t != eos and t != ii]
            n = rng.randrange(len(c["refs"]))
            c["refs"][n][0] = rng.choice(bad)
            c["oob"] = [n, c["refs"][n][0]]
            c.pop("dead_class", None)
            if c.get("logit_class") == "neg_inf_offtarget":
                c["logit_class"] = "normal"
            yield c

        # malformed stream ----------------------------------------------------------
        for i in range(12 * scale):
            yield {"kind": "malformed", "what": ["batch_mismatch", "ref_1d", "hyp_3d", "logits_2d",
                                                  "logits_shape", "eos_not_class", "eos_is_ignore",
                                                  "bad_reduction", "eos_negative_included",
                                                  "bad_reduction_module", "batch_mismatch_bf",
                                                  "logits_batch"][i % 12],
                   "seed": rng.randrange(1 << 20)}
        for i in range(12 * scale):
            # the excluded point: some column without a counted hypothesis token + exclude_last
            N = rng.choice([1, 2, 3])
            R = rng.choice([1, 2, 3, 4])
            H = rng.choice([0, 1, 2, 3])
            eos = 0
            refs = [gen_col(rng, R, [0, 1, 2], eos, True) for _ in range(N)]
            hyps = [gen_col(rng, H, [0, 1, 2], eos, False) for _ in range(N)]
            if H:
                hyps[0][0] = eos
            c = self._targets_case(rng, refs, hyps, eos, False, True, bool(i % 2), next_costs(), -100, "functional")
            c["kind"] = "excluded"
            yield c

    def _random_loss(self, rng, i, maxlen, cells, costs, ragged=False):
        ie, _, bf = cells[i % 8]
        N = rng.choice([1, 2, 3, 4])
        R = rng.choice(range(1, maxlen + 1))
        H = rng.choice(range(1, maxlen + 1))
        V = rng.choice([2, 3, 4, 5, 6])
        if ragged:
            N, R, H, V = rng.choice([2, 3, 4]), rng.randint(3, maxlen), rng.randint(2, maxlen + 2), rng.choice([3, 4, 5])
        alphabet = list(range(V))
        if V >= 4 and rng.random() < 0.4:
            alphabet = rng.sample(alphabet, V - 2)  # classes that never occur in the data
        eos_opts = [None, alphabet[0], alphabet[0], alphabet[-1]]
        if not ie:
            eos_opts += [V + 3, -1]  # not a class: allowed when the eos is not counted
        eos = rng.choice(eos_opts)
        junk = -1 if eos != -1 else -7
        refs = [gen_col(rng, R, alphabet, eos, True, junk) for _ in range(N)]
        hyps = [gen_col(rng, H, alphabet, eos, False, junk) for _ in range(N)]
        if ragged:
            eos = alphabet[0]
            junk = -1
            refs, hyps = ragged_cols(rng, N, R, H, [a for a in alphabet if a != eos], eos, junk, ie, costs)
            # what is stored past a reference's end is never a target, but keep it inside the documented
            # values of a reference tensor: class indices or the junk value the plain loss stream uses
        for n in range(N):
            if cut_len(hyps[n], eos, ie) == 0:
                hyps[n][0] = next(a for a in alphabet + [V - 1, 0] if a != eos)
        if rng.random() < 0.25:  # a column whose reference is empty: no targets anywhere
            n = rng.randrange(N)
            if eos is not None and not ie:
                refs[n][0] = eos
        weight = None
        if i % 3 == 0:
            weight = [rng.choice(["0", "1/2", "1", "2", "3/4", "5/2"]) for _ in range(V)]
        used = {t for col in refs for t in col} | {eos}
        c = {"kind": "loss", "refs": refs, "hyps": hyps, "eos": eos, "include_eos": ie,
             "batch_first": bf, "ins": costs[0], "del": costs[1], "sub": costs[2],
             "V": V, "lseed": rng.randrange(1 << 30), "weight": weight,
             "ignore_index": rng.choice([x for x in (-2, -100, -1, V, 77) if x not in used or x < 0 and x != eos]),
             "entry": "functional" if i % 2 else "module"}
        if ragged:
            c["stream"] = "ragged"
        if rng.random() < 0.8:
            c["call"] = rng.choice(cc.STYLES)
            c["cost_type"] = rng.choice(["float", "float", "int"])
            c["warn"] = rng.random() < 0.5
            c["layout"] = [rng.choice(cc.LAYOUTS), rng.choice(cc.LAYOUTS)]
            toks = [t for col in hyps for t in col] + ([eos] if eos is not None else [])
            dt = rng.choice(["int64", "int64", "int32", "int16", "uint8"])
            c["tok_dtype"] = ["int64", dt if cc.fits(toks, dt) else "int64"]
            c["logits_dtype"] = rng.choice(["float32", "float32", "float64"])
            c["logit_layout"] = rng.choice(cc.LOGIT_LAYOUTS)
            c["logit_class"] = rng.choice(cc.LOGIT_CLASSES)
            c["grad"] = rng.random() < 0.5
            if c["logit_class"] == "neg_inf_offtarget":
                dead = [v for v in range(V) if v not in used]
                if dead:
                    c["dead_class"] = rng.choice(dead)
                else:
                    c["logit_class"] = "normal"
            if rng.random() < 0.3:
                # documented defaults left out of the call
                c["call"] = rng.choice(["minimal", "mixed"])
                if rng.random() < 0.5:
                    c["ins"] = c["del"] = c["sub"] = "1"
                c["ignore_index"] = -2 if c["entry"] == "functional" else -100
        return c

    def _targets_case(self, rng, refs, hyps, eos, ie, ex, bf, costs, padding, entry):
        return {"kind": "targets", "refs": refs, "hyps": hyps, "eos": eos, "include_eos": ie,
                "exclude_last": ex, "batch_first": bf, "ins": costs[0], "del": costs[1], "sub": costs[2],
                "padding": padding, "entry": entry}

    # ------------------------------------------------------------------ implementation
    @staticmethod
    def _dims(case):
        N = len(case["refs"])
        R = len(case["refs"][0]) if N else case.get("R", 0)
        H = len(case["hyps"][0]) if N else case.get("H", 0)
        return N, R, H

    def _tensors(self, case):
        """(ref, hyp, backing tensors)."""
        N, R, H = self._dims(case)
        dts = case.get("tok_dtype") or ["int64", "int64"]
        lay = case.get("layout") or ["contig", "contig"]
        garbage = sorted({t for col in case["refs"] + case["hyps"] for t in col
                          if cc.fits([t], dts[0]) and cc.fits([t], dts[1])}) or [0]
        ref, rb = cc.make_tokens(case["refs"], R, case["batch_first"], dts[0], lay[0], garbage)
        hyp, hb = cc.make_tokens(case["hyps"], H, case["batch_first"], dts[1], lay[1], garbage)
        return ref, hyp, (rb, hb)

    @staticmethod
    def _values(case, mode):
        ins, dele, sub = cc.cost_values(case)
        v = {"eos": case["eos"], "include_eos": case["include_eos"], "batch_first": case["batch_first"],
             "ins_cost": ins, "del_cost": dele, "sub_cost": sub, "warn": case.get("warn", False)}
        if mode == "targets":
            v.update(padding=case["padding"], exclude_last=case["exclude_last"])
        return v

    def run_impl(self, case):
        import torch
        from pydrobert.torch import functional as F, modules as M
        self._stash = None
        with warnings.catch_warnings():
            warnings.simplefilter("ignore")
            if case["kind"] == "malformed":
                return self._run_malformed(case, torch, F, M)
            ref, hyp, bases = self._tensors(case)
            keep = [b.clone() for b in bases]
            style = case.get("call", "keyword")
            if case["kind"] in ("targets", "excluded", "zero_batch"):
                values = self._values(case, "targets")
                pos, kw = cc.split_args(values, cc.ORDER["targets"], cc.DOC_DEFAULTS["targets"], style)
                second = None
                if case["entry"] == "module":
                    mod = M.OptimalCompletion(*pos, **kw)
                    out = mod(ref, hyp)
                    out2 = mod(ref, hyp)
                    second = bool(out2.shape == out.shape and torch.equal(out2, out))
                else:
                    out = F.optimal_completion(ref, hyp, *pos, **kw)
                res = {"shape": list(out.shape), "dtype": str(out.dtype), "out": out.tolist(),
                       "inputs_untouched": all(torch.equal(b, k) for b, k in zip(bases, keep)),
                       "second_call_same": second}
                self._stash = (id(case), res)
                return res
            # loss
            vals = cc.logit_values(case)
            logits, lbase = cc.make_logits(case, vals)
            lkeep = lbase.clone()
            weight = None
            if case["weight"] is not None:
                weight = torch.tensor([_f(w) for w in case["weight"]], dtype=logits.dtype)
            values = self._values(case, "loss")
            values.update(weight=weight, ignore_index=case["ignore_index"])
            res = {"dtype": {}}

            def call(lg, red):
                values["reduction"] = red
                if case["entry"] == "module":
                    warn = values["warn"]
                    pos, kw = cc.split_args(values, cc.ORDER["loss_module"], cc.DOC_DEFAULTS["loss_module"], style)
                    mod = M.HardOptimalCompletionDistillationLoss(*pos, **kw)
                    if style == "positional":
                        return mod(lg, ref, hyp, warn)
                    if style == "keyword" or not warn:
                        return mod(lg, ref, hyp, warn=warn)
                    return mod(lg, ref, hyp)
                pos, kw = cc.split_args(values, cc.ORDER["loss_functional"], cc.DOC_DEFAULTS["loss_functional"],
                                        style)
                return F.hard_optimal_completion_distillation_loss(lg, ref, hyp, *pos, **kw)

            for red in ("none", "sum", "mean"):
                v = call(logits, red)
                res["dtype"][red] = str(v.dtype)
                if red == "none":
                    res["none_shape"] = list(v.shape)
                    res["none_native"] = [[frac_str(x) for x in row] for row in v.tolist()]
                else:
                    res[red + "_shape"] = list(v.shape)
                    res[red] = frac_str(v.item()) if v.dim() == 0 else "not-a-scalar"
            if case.get("grad"):
                # the loss as a differentiable function of the logits: d(sum)/d(logits), leaf with the
                # same strides as the tensor handed over
                lg = logits.detach().requires_grad_(True)
                v = call(lg, "sum")
                g = None
                if v.requires_grad:
                    v.backward()
                    g = lg.grad
                if g is None:
                    res["grad"] = None
                else:
                    if case["batch_first"]:
                        g = g.transpose(0, 1)
                    res["grad"] = [[[frac_str(x) for x in vec] for vec in mat] for mat in g.tolist()]
            res["inputs_untouched"] = bool(all(torch.equal(b, k) for b, k in zip(bases, keep))
                                           and torch.equal(lbase, lkeep))
            return res

    def _run_malformed(self, case, torch, F, M):
        import random as _random
        what = case["what"]
        r = _random.Random(case["seed"])
        N, R, H, V = r.choice([1, 2, 3]), r.choice([1, 2, 3]), r.choice([1, 2, 3]), 4
        ref = torch.randint(0, V, (R, N), generator=torch.Generator().manual_seed(case["seed"]))
        hyp = torch.randint(0, V, (H, N), generator=torch.Generator().manual_seed(case["seed"] + 1))
        logits = torch.zeros((H, N, V))
        if what == "batch_mismatch":
            F.optimal_completion(ref, torch.zeros((H, N + 1), dtype=torch.long), warn=False)
        elif what == "batch_mismatch_bf":
            M.OptimalCompletion(batch_first=True)(ref.t(), torch.zeros((N + 1, H), dtype=torch.long))
        elif what == "ref_1d":
            F.optimal_completion(ref[:, 0], hyp, warn=False)
        elif what == "hyp_3d":
            F.optimal_completion(ref, hyp.unsqueeze(-1), warn=False)
        elif what == "logits_2d":
            F.hard_optimal_completion_distillation_loss(logits[..., 0], ref, hyp, warn=False)
        elif what == "logits_shape":
            F.hard_optimal_completion_distillation_loss(torch.zeros((H + 1, N, V)), ref, hyp, warn=False)
        elif what == "logits_batch":
            F.hard_optimal_completion_distillation_loss(torch.zeros((H, N + 1, V)), ref, hyp, warn=False)
        elif what == "eos_not_class":
            F.hard_optimal_completion_distillation_loss(logits, ref, hyp, eos=V, include_eos=True, warn=False)
        elif what == "eos_negative_included":
            F.hard_optimal_completion_distillation_loss(logits, ref, hyp, eos=-1, include_eos=True, warn=False)
        elif what == "eos_is_ignore":
            F.hard_optimal_completion_distillation_loss(logits, ref, hyp, eos=1, include_eos=True,
                                                        ignore_index=1, warn=False)
        elif what == "bad_reduction":
            F.hard_optimal_completion_distillation_loss(logits, ref, hyp, reduction="avg", warn=False)
        elif what == "bad_reduction_module":
            M.HardOptimalCompletionDistillationLoss(reduction="avg")(logits, ref, hyp, warn=False)
        return {"returned": True}

    # ------------------------------------------------------------------ model
    @staticmethod
    def _native2(cols, L, bf):
        """The logical token tensor of the call: (N, L) under batch_first, else (L, N); row-major."""
        N = len(cols)
        if bf:
            return {"shape": [N, L], "data": [t for col in cols for t in col]}
        return {"shape": [L, N], "data": [cols[n][i] for i in range(L) for n in range(N)]}

    def model_request(self, case):
        if case["kind"] in ("malformed", "excluded", "zero_batch"):
            return None
        N, R, H = self._dims(case)
        bf = case["batch_first"]
        base = {"eos": case["eos"], "include_eos": case["include_eos"], "ins": case["ins"],
                "del": case["del"], "sub": case["sub"], "batch_first": bf,
                "ref": self._native2(case["refs"], R, bf), "hyp": self._native2(case["hyps"], H, bf)}
        if case["kind"] == "targets":
            base.update(exclude_last=case["exclude_last"], padding=case["padding"])
            st = getattr(self, "_stash", None)
            if st is not None and st[0] == id(case) and len(st[1]["shape"]) == 3:
                # the implementation's own output tensor, judged by the Lean rowCheck / rowAgree
                flat = [x for a in st[1]["out"] for b in a for x in b]
                base["impl"] = {"shape": st[1]["shape"], "data": flat}
            return {"op": "c03.targets", "case": base}
        lsm = [[cc.lsm_oracle(vec) for vec in mat] for mat in cc.logit_values(case)]  # [k][n][v]
        if bf:
            lsm = [[lsm[k][n] for k in range(H)] for n in range(N)]
        flat = [frac_str(x) if x != float("-inf") else str(cc.NEG_INF_SENTINEL)
                for mat in lsm for vec in mat for x in vec]
        base.update(exclude_last=True, padding=case["ignore_index"], ignore_index=case["ignore_index"],
                    weight=case["weight"],
                    lsm={"shape": ([N, H] if bf else [H, N]) + [case["V"]], "data": flat})
        return {"op": "c03.loss", "case": base}

    # ------------------------------------------------------------------ helpers
    @staticmethod
    def _strip(row, pad):
        """-> (targets, ok) where ok says that padding occurs only as a suffix."""
        n = len(row)
        while n > 0 and row[n - 1] == pad:
            n -= 1
        return row[:n], pad not in row[:n]

    @staticmethod
    def _valid_count(case, hyp_len):
        return hyp_len if case.get("exclude_last", True) else hyp_len + 1

    @staticmethod
    def _rows_kn(case, nested, Hp, N):
        """Native nested output -> rows[k][n] (None when the outer shape is not the documented one)."""
        if case["batch_first"]:
            if len(nested) != N or any(len(r) != Hp for r in nested):
                return None
            return [[nested[n][k] for n in range(N)] for k in range(Hp)]
        if len(nested) != Hp or any(len(r) != N for r in nested):
            return None
        return nested

    def _check_model_vs_oracle(self, case, model):
        """The theorems say the model's lists are the oracle's sets; a mismatch is a machinery error."""
        pad = case["padding"]
        N = len(case["refs"])
        for n in range(N):
            nv = self._valid_count(case, model["hyp_lens"][n])
            for k in range(model["Hp"]):
                got, ok = self._strip(model["rows"][k][n], pad)
                want = sorted(model["oracle"][n][k]) if k < nv else []
                if not ok or got != want:
                    raise AssertionError(f"model != spec at column {n} prefix {k}: model {got} oracle {want}")

    @staticmethod
    def _not_long(case):
        return any(d != "int64" for d in (case.get("tok_dtype") or ["int64"]))

    # ------------------------------------------------------------------ correspondence
    def compare(self, case, impl, model):
        if case["kind"] == "targets":
            if "error" in model:
                raise AssertionError(f"the model refuses an in-domain batch: {model['error']}")
            if not has_zero_cost(case):  # C03_model_targets asks for strictly positive costs
                self._check_model_vs_oracle(case, model)
            if "error" in impl:
                if self._not_long(case):
                    return []
                return [f"implementation raised {impl['error']}: {impl.get('message')}"]
            N = len(case["refs"])
            out = []
            rows = self._rows_kn(case, impl["out"], model["Hp"], N) if len(impl["shape"]) == 3 else None
            verdict = model.get("verdict")
            if verdict is not None and verdict["shape_ok"] != (rows is not None):
                raise AssertionError(f"Lean and python disagree on the output shape {impl['shape']}")
            if rows is None:
                return [f"shape impl={impl['shape']} model={model['out']['shape']} "
                        f"batch_first={case['batch_first']}"]
            differ = set()
            for k in range(model["Hp"]):
                for n in range(N):
                    a, _ = self._strip(rows[k][n], case["padding"])
                    b, _ = self._strip(model["rows"][k][n], case["padding"])
                    if sorted(a) != sorted(b):
                        differ.add((k, n))
                        out.append(f"prefix {k} column {n}: impl {a} model {b}")
            if verdict is not None:
                lean = {(b["k"], b["n"]) for b in verdict["bad"] if not b["agree"]}
                if lean != differ:
                    raise AssertionError(f"Lean rowAgree {sorted(lean)} != python comparison {sorted(differ)}")
            return out[:5]
        if case["kind"] == "loss" and case.get("oob"):
            # a listed target outside the class range: both must raise IndexError
            me = model.get("error") if isinstance(model, dict) else None
            ie_ = impl.get("error") if isinstance(impl, dict) else None
            if me != "IndexError":
                raise AssertionError(f"the model did not raise IndexError on an out-of-range target: {me}")
            if ie_ != me:
                return [f"out-of-range target {case['oob']}: implementation "
                        f"{'raised ' + str(ie_) if ie_ else 'returned a value'}, model raised {me}"]
            return []
        if case["kind"] == "loss":
            if "error" in model:
                raise AssertionError(f"the model refuses an in-domain batch: {model['error']}")
            if "error" in impl:
                return [f"implementation raised {impl['error']}: {impl.get('message')}"]
            mat = self._loss_matrix(case, impl)
            if mat is None:
                return [f"loss matrix shape impl={impl['none_shape']}"]
            return self._loss_diff(case, dict(impl, none=mat),
                                   {"none": model["none"], "sum": model["sum"], "mean": model["mean"]}, "model")
        return []

    def _loss_matrix(self, case, impl):
        N, _, H = self._dims(case)
        nat = impl["none_native"]
        want = [N, H] if case["batch_first"] else [H, N]
        if impl["none_shape"] != want:
            return None
        if case["batch_first"]:
            return [[nat[n][k] for n in range(N)] for k in range(H)]
        return nat

    @staticmethod
    def _num(s):
        return float(parse_frac(s))  # "nan" / "inf" / "-inf" come back as words

    def _close(self, case, a, b, scale):
        if a != a or b != b or abs(a) == float("inf") or abs(b) == float("inf"):
            return False
        return abs(a - b) <= TOL[case.get("logits_dtype", "float32")] * max(1.0, scale)

    def _loss_diff(self, case, impl, ref, name):
        out = []
        mat = [[self._num(x) for x in row] for row in ref["none"]]
        scale = sum(abs(x) for row in mat for x in row)
        got = impl["none"]
        if [len(r) for r in got] != [len(r) for r in mat]:
            return [f"loss matrix shape impl={[len(r) for r in got]} {name}={[len(r) for r in mat]}"]
        for k, row in enumerate(mat):
            for n, x in enumerate(row):
                g = self._num(got[k][n])
                if not self._close(case, g, x, abs(x)):
                    out.append(f"loss[{k}][{n}] impl={g!r} {name}={x!r}")
        for red in ("sum", "mean"):
            if impl[red] == "not-a-scalar":
                out.append(f"{red} is not a scalar: shape {impl[red + '_shape']}")
                continue
            g, x = self._num(impl[red]), self._num(ref[red])
            if not self._close(case, g, x, scale):
                out.append(f"{red} impl={g!r} {name}={x!r}")
        return out[:5]

    # ------------------------------------------------------------------ property on the implementation
    def predicate(self, case, impl, model):
        kind = case["kind"]
        if kind == "excluded":
            return []  # never judged
        if kind == "malformed":
            if isinstance(impl, dict) and "error" in impl:
                return []
            return [(f"malformed input '{case['what']}' was accepted silently", "C03.malformed.accepted")]
        if kind == "zero_batch":
            if "error" in impl:
                return []  # N = 0 is outside the property (N >= 1); a refusal is fine
            Hp = case["H"] + (0 if case["exclude_last"] else 1)
            want = [0, max(Hp, 1)] if case["batch_first"] else [max(Hp, 1), 0]
            if impl["shape"][:2] != want:
                return [(f"empty batch: output shape {impl['shape']}, expected {want} + [*]",
                         "C03.targets.zero_batch_shape")]
            return []
        if case.get("oob"):
            # a reference token that is a target but no class index: the loss is undefined, the call must not
            # return a number (cross_entropy's IndexError)
            if isinstance(impl, dict) and "error" in impl:
                return []
            return [(f"loss: a target that is no class index ({case['oob'][1]}, V={case['V']}) was accepted "
                     f"silently", "C03.loss.out_of_range_target_accepted")]
        if "error" in impl:
            if self._not_long(case):
                return []  # the documentation asks for a long tensor
            sig = None
            N = len(case["refs"])
            if kind == "targets" and N and len(case["refs"][0]) == 0 and impl["error"] == "IndexError":
                sig = "C03.targets.zero_length_reference_dimension"
            return [(f"{kind}: implementation raised {impl['error']}: {impl.get('message')} on an in-domain "
                     f"input", sig)]
        if model is None:
            return []
        fails = []
        N = len(case["refs"])
        if not impl.get("inputs_untouched", True):
            fails.append(("the call wrote to one of its input tensors", "C03.inputs_modified"))
        if kind == "targets":
            pad = case["padding"]
            Hp = model["Hp"]
            if impl["second_call_same"] is False:
                fails.append(("a second call of the same module object returned something else",
                              "C03.module.second_call"))
            if impl["dtype"] != "torch.int64":
                fails.append((f"targets have dtype {impl['dtype']}, documented: long", "C03.targets.dtype"))
            rows = self._rows_kn(case, impl["out"], Hp, N)
            if rows is None or len(impl["shape"]) != 3:
                want = f"({N}, {Hp}, *)" if case["batch_first"] else f"({Hp}, {N}, *)"
                return fails + [(f"output has shape {impl['shape']}, expected {want}", "C03.targets.shape")]
            bad = set()
            for n in range(N):
                nv = self._valid_count(case, model["hyp_lens"][n])
                for k in range(Hp):
                    row = rows[k][n]
                    got, ok = self._strip(row, pad)
                    if not ok or len(set(got)) != len(got) or (set(got) != set(model["oracle"][n][k]) if k < nv
                                                               else bool(got)):
                        bad.add((k, n))
                    if not ok:
                        fails.append((f"column {n} prefix {k}: padding inside the list {row}",
                                      "C03.targets.padding_inside"))
                    if len(set(got)) != len(got):
                        fails.append((f"column {n} prefix {k}: a token is listed twice {row}",
                                      "C03.targets.duplicate"))
                    if k >= nv:
                        if got:
                            fails.append((f"column {n} prefix {k} is past the hypothesis's end "
                                          f"(len {model['hyp_lens'][n]}) but lists {got}",
                                          "C03.targets.past_end_not_padding"))
                        continue
                    want = set(model["oracle"][n][k])
                    if set(got) != want:
                        sig = "C03.targets.set_mismatch"
                        if has_zero_cost(case) and sorted(got) == sorted(self._strip(model["rows"][k][n], pad)[0]):
                            # the documented algorithm (tokens after the minimal positions of the DP column) run
                            # with a zero cost: C03_targets needs strictly positive costs, counterexample proved
                            sig = "C03.targets.zero_cost_minimal_positions"
                        fails.append((f"column {n} prefix {k}: listed {sorted(set(got))} but the tokens that keep "
                                      f"the best reachable distance are {sorted(want)}", sig))
            verdict = model.get("verdict")
            if verdict is not None:
                # the authority: Lean's rowCheck (C03_check_sound_complete); python only words the message
                lean = {(b["k"], b["n"]) for b in verdict.get("bad", []) if not b["check"]}
                if lean != bad:
                    raise AssertionError(f"Lean rowCheck {sorted(lean)} != python predicate {sorted(bad)}")
            return fails[:6]
        # loss: spec value from the oracle sets, reductions recomputed here in exact arithmetic
        ldt = "torch." + case.get("logits_dtype", "float32")
        for red, dt in impl["dtype"].items():
            if dt != ldt:
                fails.append((f"reduction {red}: result dtype {dt} for {ldt} logits", "C03.loss.dtype"))
        mat = self._loss_matrix(case, impl)
        if mat is None:
            return fails + [(f"unreduced loss has shape {impl['none_shape']}, expected the shape of hyp",
                             "C03.loss.shape")]
        cells = [[parse_frac(x) for x in row] for row in model["spec_cells"]]
        H = len(cells)
        ref = {"none": [[frac_str(x) for x in row] for row in cells]}
        ref["sum"] = frac_str(sum((x for row in cells for x in row), Fraction(0)))
        per = []
        for n in range(N):
            nonempty = sum(1 for k in range(H) if model["oracle"][n][k:k + 1] and model["oracle"][n][k]
                           and k < model["hyp_lens"][n])
            per.append(sum((cells[k][n] for k in range(H)), Fraction(0)) / max(nonempty, 1))
        ref["mean"] = frac_str(sum(per, Fraction(0)) / N)
        if (parse_frac(model["spec_sum"]), parse_frac(model["spec_mean"])) != (
                parse_frac(ref["sum"]), parse_frac(ref["mean"])):
            raise AssertionError(f"Lean lossSumSpec/lossMeanSpec {model['spec_sum']}, {model['spec_mean']} != "
                                 f"python recomputation {ref['sum']}, {ref['mean']}")
        for d in self._loss_diff(case, dict(impl, none=mat), ref, "spec"):
            fails.append((f"loss differs from the average negative log-probability of the target set: {d}",
                          "C03.loss.value"))
        if case.get("grad"):
            fails += self._grad_fails(case, impl, model)
        return fails[:4]

    def _grad_fails(self, case, impl, model):
        """d(sum of the cells)/d(logits[k][n][v]) = (1/|S|) sum_{s in S} w_s (softmax_v - [v = s])."""
        import math
        if impl.get("grad") is None:
            return [("the summed loss does not depend on the logits (no gradient reaches them)",
                     "C03.loss.gradient")]
        N, _, H = self._dims(case)
        V = case["V"]
        w = [float(Fraction(x)) for x in case["weight"]] if case["weight"] is not None else [1.0] * V
        vals = cc.logit_values(case)
        tol = TOL[case.get("logits_dtype", "float32")] * max(1.0, max(w))
        out = []
        for k in range(H):
            for n in range(N):
                S = model["oracle"][n][k] if k < model["hyp_lens"][n] else []
                p = [math.exp(x) if x != float("-inf") else 0.0 for x in cc.lsm_oracle(vals[k][n])]
                for v in range(V):
                    want = sum(w[s] * (p[v] - (1.0 if v == s else 0.0)) for s in S) / len(S) if S else 0.0
                    got = self._num(impl["grad"][k][n][v])
                    if not (abs(got - want) <= tol):
                        out.append((f"gradient of the summed loss at logits[{k}][{n}][{v}]: impl {got!r}, "
                                    f"from the target set {want!r}", "C03.loss.gradient"))
                        if len(out) >= 2:
                            return out
        return out

    # ------------------------------------------------------------------ evidence
    def _cuts(self, case):
        eos, ie = case["eos"], case["include_eos"]
        return [(tuple(r[:cut_len(r, eos, ie)]), tuple(h[:cut_len(h, eos, ie)]))
                for r, h in zip(case["refs"], case["hyps"])]

    def nontrivial(self, case, impl):
        if case["kind"] not in ("targets", "loss"):
            return False
        return any(r and h and r != h and len(set(r) | set(h)) > 1 for r, h in self._cuts(case))

    def key(self, case):
        if case["kind"] not in ("targets", "loss"):
            return repr(sorted(case.items()))
        return repr((case["kind"], self._cuts(case), case["ins"], case["del"], case["sub"],
                     case["include_eos"], case.get("exclude_last"), case["batch_first"]))

    def tags(self, case, impl):
        kind = case["kind"]
        t = [f"kind={kind}"]
        if kind == "malformed":
            return t + [f"malformed={case['what']}"]
        t.append(f"cell=ie{int(case['include_eos'])}.ex{int(case.get('exclude_last', True))}."
                 f"bf{int(case['batch_first'])}")
        t.append(f"entry={case['entry']}")
        t.append(f"call={case.get('call', 'keyword')}")
        t.append(f"cost_type={case.get('cost_type', 'float')}")
        t.append(f"warn={int(case.get('warn', False))}")
        lay = case.get("layout") or ["contig", "contig"]
        dts = case.get("tok_dtype") or ["int64", "int64"]
        t += [f"ref_layout={lay[0]}", f"hyp_layout={lay[1]}", f"ref_dtype={dts[0]}", f"hyp_dtype={dts[1]}"]
        if isinstance(impl, dict) and "error" in impl and self._not_long(case):
            t.append("non_long_tokens_rejected")
        eos = case["eos"]
        t.append("eos=" + ("unset" if eos is None else
                           ("negative_" if eos < 0 else "") +
                           ("absent" if all(eos not in r for r in case["refs"]) else "present")))
        if case["ins"] == case["del"] == case["sub"]:
            t.append("uniform_cost_shortcut")
        t.append(f"stream={case.get('stream', 'plain')}")
        co = cost_order((case["ins"], case["del"], case["sub"]))
        t += [f"cost_order=sub{co[0]}ins", f"cost_order=sub{co[1]}del", f"cost_order=sub{co[2]}ins+del",
              f"cost_order=ins{co[3]}del"]
        if any(co[4]):
            t.append("zero_cost=" + "".join(n for n, z in zip(("ins", "del", "sub"), co[4]) if z))
        if co[5]:
            t.append("fractional_cost")
        if kind == "zero_batch":
            return t + ["N=0", "zero_batch=" + ("rejected" if "error" in impl else "accepted")]
        N, R, H = self._dims(case)
        t += [f"N={N}", f"R={R}", f"H={H}"]
        toks = [x for col in case["refs"] + case["hyps"] for x in col]
        if any(x < 0 for x in toks):
            t.append("negative_tokens")
        if any(abs(x) >= 2 ** 31 for x in toks):
            t.append("tokens_beyond_int32")
        if any(abs(x) > 2 ** 53 for x in toks):
            t.append("tokens_beyond_float64_integers")
        cuts = self._cuts(case)
        if any(len(set(r)) < len(r) for r, _ in cuts):
            t.append("repeated_token_in_reference")
        if any(set(full[len(r):]) & set(r) for (r, _), full in zip(cuts, case["refs"])):
            t.append("reference_token_repeated_in_garbage")
        if any(len(r) == 0 for r, _ in cuts):
            t.append("empty_cut_reference")
        if any(len(h) == 0 for _, h in cuts):
            t.append("empty_cut_hypothesis")
        if any(len(h) < H for _, h in cuts):
            t.append("prefixes_past_end")
        if len({len(h) for _, h in cuts}) > 1:
            t.append("ragged_hypothesis_lengths")
        if len({len(r) for r, _ in cuts}) > 1:
            t.append("ragged_reference_lengths")
        if any(len(r) + 2 <= R and len(h) > len(r) + 1 for r, h in cuts):
            t.append("hypothesis_longer_than_short_reference")
        if any(set(full[len(r):]) & set(h) for (r, h), full in zip(cuts, case["refs"])):
            t.append("hypothesis_token_stored_past_reference_end")
        if kind in ("targets", "excluded") and isinstance(impl, dict) and "out" in impl and len(impl["shape"]) == 3:
            t.append(f"padding={case['padding']}")
            if any(len(self._strip(row, case["padding"])[0]) >= 2 for rows in impl["out"] for row in rows):
                t.append("prefix_with_several_targets")
            rows = self._rows_kn(case, impl["out"], len(impl["out"]) if not case["batch_first"]
                                 else (len(impl["out"][0]) if impl["out"] else 0), N)
            if rows and any(self._strip(rows[k][n], case["padding"])[0]
                            for n, (r, h) in enumerate(cuts) for k in range(len(r) + 1, min(len(h) + 1, len(rows)))):
                t.append("target_at_prefix_longer_than_reference")
        if kind == "loss":
            if case.get("oob"):
                t.append("target_outside_class_range=" + ("negative" if case["oob"][1] < 0 else "at_or_above_V"))
            t.append("weight=" + ("yes" if case["weight"] is not None else "no"))
            t.append(f"logits_dtype={case.get('logits_dtype', 'float32')}")
            t.append(f"logit_layout={case.get('logit_layout', 'contig')}")
            t.append(f"logit_class={case.get('logit_class', 'normal')}")
            if case.get("grad"):
                t.append("gradient_checked")
            ii = case["ignore_index"]
            t.append("ignore_index=" + (str(ii) if ii < 0 else "at_V" if ii == case["V"] else "above_V"))
            if any(len(r) == 0 for r, _ in cuts):
                t.append("column_without_any_target")
        return t

    def shrink(self, case):
        if case.get("oob"):
            tok = case["oob"][1]
            for c in self._shrink(case):
                hit = [n for n, r in enumerate(c["refs"]) if r and r[0] == tok]
                if hit:
                    c["oob"] = [hit[0], tok]
                    yield c
            return
        yield from self._shrink(case)

    def _shrink(self, case):
        if case["kind"] not in ("targets", "loss"):
            return
        # first: hand the batch over in the plainest way
        for opt in ("layout", "tok_dtype", "call", "cost_type", "warn", "logit_layout", "logits_dtype",
                    "logit_class", "grad"):
            if opt in case:
                c = dict(case)
                del c[opt]
                if opt == "logit_class":
                    c.pop("dead_class", None)
                yield c
        N = len(case["refs"])
        R = len(case["refs"][0]) if N else 0
        H = len(case["hyps"][0]) if N else 0
        if N > 1:
            for n in range(N):
                c = dict(case)
                c["refs"] = case["refs"][:n] + case["refs"][n + 1:]
                c["hyps"] = case["hyps"][:n] + case["hyps"][n + 1:]
                if c.get("dead_class") in {t for col in c["refs"] for t in col}:
                    continue
                yield c
        minH = 1 if (case["kind"] == "loss" or case.get("exclude_last")) else 0
        if H > minH:
            c = dict(case)
            c["hyps"] = [h[:-1] for h in case["hyps"]]
            if not (c.get("exclude_last", True) and any(
                    cut_len(h, case["eos"], case["include_eos"]) == 0 for h in c["hyps"])):
                yield c
        if R > 1:
            c = dict(case)
            c["refs"] = [r[:-1] for r in case["refs"]]
            yield c
        if (case["ins"], case["del"], case["sub"]) != ("1", "1", "1"):
            c = dict(case)
            c["ins"] = c["del"] = c["sub"] = "1"
            yield c
        for opt in ("batch_first", "include_eos"):
            if case.get(opt):
                c = dict(case)
                c[opt] = False
                if not (c.get("exclude_last", True) and any(
                        cut_len(h, c["eos"], c["include_eos"]) == 0 for h in c["hyps"])):
                    yield c
        if case["kind"] == "loss" and case["weight"] is not None:
            c = dict(case)
            c["weight"] = None
            yield c
        if case["entry"] == "module":
            c = dict(case)
            c["entry"] = "functional"
            yield c


CHECK = C03()
