"""C03 — optimal-completion targets are exactly the distance-preserving next tokens; hard OCD loss.

Correspondence: the real `optimal_completion` / `OptimalCompletion` and
`hard_optimal_completion_distillation_loss` / `HardOptimalCompletionDistillationLoss` are run
in-process on padded batches; the Lean driver runs the per-column model
(`Model/OptCompletion.lean`) on the same columns and, independently of the mask/sort/scatter
path, the oracle `best (p ++ [t]) == best p` through the shared DP with the true costs.

Streams
* exact: targets (integers; costs are dyadic so every float32 DP entry is exact);
* tolerance: loss (random logits; torch's own log_softmax is handed to the model as exact
  rationals, results compared with 1e-5 relative tolerance);
* malformed: shape errors (must raise) and the excluded point — an empty counted hypothesis
  together with exclude_last — which is run but NEVER judged.
"""
import itertools
import random
import warnings
from fractions import Fraction

from common.framework import PropertyCheck, frac_str, parse_frac

COSTS = ["1/4", "1/2", "1", "3/2", "2", "3", "4"]
PADS = [-100, -2, 77]
TOL = 1e-5


def _f(s):
    return float(Fraction(s))


# ------------------------------------------------------------------ python-side lengths
def cut_len(toks, eos, include_eos):
    if eos is None:
        return len(toks)
    l = len(toks)
    for i, t in enumerate(toks):
        if t == eos:
            l = i
            break
    if include_eos and l != len(toks):
        l += 1
    return l


def gen_col(rng, L, alphabet, eos, dup_bias):
    """A padded column of length L. With eos set and present: tokens, eos, then garbage that
    deliberately repeats tokens of the valid part (and -1 / eos)."""
    alpha = [a for a in alphabet if a != eos] or [1]
    if dup_bias and len(alpha) > 1 and rng.random() < 0.6:
        alpha = rng.sample(alpha, max(1, len(alpha) - 1))  # fewer symbols -> more repeats
    if eos is None or L == 0:
        return [rng.choice(alpha) for _ in range(L)]
    p = rng.choice(list(range(L + 1)) + [0, L, L])  # L = no eos in the data
    out = [rng.choice(alpha) for _ in range(min(p, L))]
    if p < L:
        out.append(eos)
        filler = alpha + alpha + [eos, -1]
        out += [rng.choice(filler) for _ in range(L - p - 1)]
    return out


class C03(PropertyCheck):
    pid = "C03"
    title = "optimal-completion targets / hard OCD loss"
    rule = ("padded batches N<=4, R,H<=6 (thorough <=9), alphabets of 1-4 symbols so that references repeat "
            "tokens, eos in {unset, in data at every position incl. 0, absent}, garbage after eos repeating valid "
            "tokens, every cost triple of {1/4,1/2,1,3/2,2,3,4}^3, include_eos x exclude_last x batch_first, "
            "functional and module entry points; exhaustive 2-symbol grid for short lengths; loss with random "
            "logits, all reductions, optional class weights. non-trivial: some column with both cut sequences "
            "non-empty, different, and not all tokens equal; distinct by (cut ref, cut hyp, costs, option cell)")
    assumptions = [
        "float32 DP arithmetic is exact on the dyadic cost grid for these sizes (verified: targets are integers "
        "compared exactly with the rational model)",
        "loss: torch.log_softmax taken as given (its float32 output is passed to the model as exact rationals); "
        "float32 summation error covered by a 1e-5 relative tolerance",
        "torch primitives sort/gather/masked_select/masked_scatter_/cross_entropy at their documented meaning",
        "the excluded point of the property (no counted hypothesis token together with exclude_last) is generated "
        "only in the malformed stream and never judged",
    ]
    exhaustive = {"quick": False, "thorough": False}
    quick_budget_s = 150
    thorough_budget_s = 1200

    # ------------------------------------------------------------------ generators
    def cases(self, rng, tier):
        scale = {"quick": 1, "thorough": 8, "search": 12}[tier]
        maxlen = 6 if tier == "quick" else 9
        cells = list(itertools.product([False, True], repeat=3))  # include_eos, exclude_last, batch_first
        triples = list(itertools.product(COSTS, repeat=3))
        rng.shuffle(triples)
        ti = 0

        def next_costs():
            nonlocal ti
            t = triples[ti % len(triples)]
            ti += 1
            return t

        # hand-written edges first -------------------------------------------------
        yield self._targets_case(rng, [[1, 2, 2, 3, 0, 2, 2]], [[2, 1, 2, 0, 5]], 0, True, False, False,
                                 ("1", "1", "1"), -100, "functional")
        # R == 0 / H == 0 (zero-length dimensions, eos unset so that C01's _lens_from_eos is not involved)
        for R, H, ex in [(0, 2, False), (0, 0, False), (3, 0, False), (0, 3, True)]:
            yield self._targets_case(rng, [[1] * R, [2] * R], [[1] * H, [2] * H], None, False, ex, False,
                                     ("1", "2", "1/2"), -100, "functional")

        # small exhaustive grid: alphabet {1,2} + eos 0 -----------------------------
        lim = 2 if tier == "quick" else 3
        seqs = [list(s) for s in itertools.product([1, 2, 0], repeat=lim)]
        pairs = [(r, h) for r in seqs for h in seqs]
        rng.shuffle(pairs)
        ci = 0
        for i in range(0, len(pairs), 4):
            chunk = pairs[i:i + 4]
            for ie, ex, bf in cells:
                if ex:
                    ch = [(r, h) for r, h in chunk if cut_len(h, 0, ie) >= 1]
                else:
                    ch = chunk
                if not ch:
                    continue
                ci += 1
                yield self._targets_case(rng, [r for r, _ in ch], [h for _, h in ch], 0, ie, ex, bf,
                                         next_costs(), rng.choice(PADS), "functional" if ci % 3 else "module")

        # random structured stream --------------------------------------------------
        n_rand = 800 * scale
        for i in range(n_rand):
            ie, ex, bf = cells[i % 8]
            N = rng.choice([1, 2, 3, 4])
            R = rng.choice([1, 2, 3, 4, 5, 6] if maxlen == 6 else list(range(1, maxlen + 1)))
            H = rng.choice([0, 1, 2, 3, 4, 5, 6] if maxlen == 6 else list(range(0, maxlen + 1)))
            V = rng.choice([1, 2, 2, 3, 3, 4])
            alphabet = list(range(V + 1))
            eos = rng.choice([None, 0, 0, 0, 9])
            refs = [gen_col(rng, R, alphabet, eos, True) for _ in range(N)]
            hyps = [gen_col(rng, H, alphabet, eos, False) for _ in range(N)]
            if rng.random() < 0.4:  # hypothesis derived from the reference: small distances, many ties
                for n in range(N):
                    h = [t for t in refs[n] if rng.random() < 0.8]
                    h = (h + [rng.choice(alphabet) for _ in range(H)])[:H]
                    hyps[n] = h
            if ex:
                # keep the excluded point out of the judged stream
                for n in range(N):
                    if cut_len(hyps[n], eos, ie) == 0:
                        if H == 0:
                            break
                        hyps[n][0] = next(a for a in alphabet + [1] if a != eos)
                if H == 0:
                    ex = False
            costs = next_costs() if i % 5 else (lambda c: (c, c, c))(rng.choice(COSTS))
            yield self._targets_case(rng, refs, hyps, eos, ie, ex, bf, costs, rng.choice(PADS),
                                     "functional" if i % 3 else "module")

        # loss (tolerance stream) ---------------------------------------------------
        for i in range(160 * scale):
            ie, _, bf = cells[i % 8]
            N = rng.choice([1, 2, 3, 4])
            R = rng.choice(range(1, maxlen + 1))
            H = rng.choice(range(1, maxlen + 1))
            V = rng.choice([2, 3, 4, 5])
            alphabet = list(range(V))
            eos = rng.choice([None, 0, 0, V - 1])
            refs = [gen_col(rng, R, alphabet, eos, True) for _ in range(N)]
            hyps = [gen_col(rng, H, alphabet, eos, False) for _ in range(N)]
            # garbage may contain -1; valid region never does (gen_col puts -1 only after eos)
            for n in range(N):
                if cut_len(hyps[n], eos, ie) == 0:
                    hyps[n][0] = next(a for a in alphabet if a != eos)
            costs = next_costs() if i % 4 else ("1", "1", "1")
            weight = None
            if i % 3 == 0:
                weight = [rng.choice(["0", "1/2", "1", "2", "3/4", "5/2"]) for _ in range(V)]
            yield {"kind": "loss", "refs": refs, "hyps": hyps, "eos": eos, "include_eos": ie,
                   "batch_first": bf, "ins": costs[0], "del": costs[1], "sub": costs[2],
                   "V": V, "lseed": rng.randrange(1 << 30), "weight": weight,
                   "ignore_index": rng.choice([-2, -100, -1]),
                   "entry": "functional" if i % 2 else "module"}

        # malformed stream ----------------------------------------------------------
        for i in range(12 * scale):
            yield {"kind": "malformed", "what": ["batch_mismatch", "ref_1d", "hyp_3d", "logits_2d",
                                                  "logits_shape", "eos_not_class", "eos_is_ignore",
                                                  "bad_reduction"][i % 8],
                   "seed": rng.randrange(1 << 20)}
        for i in range(12 * scale):
            # the excluded point: some column without a counted hypothesis token + exclude_last
            N = rng.choice([1, 2, 3])
            R = rng.choice([1, 2, 3, 4])
            H = rng.choice([0, 1, 2, 3])
            eos = 0
            refs = [gen_col(rng, R, [0, 1, 2], eos, True) for _ in range(N)]
            hyps = [gen_col(rng, H, [0, 1, 2], eos, False) for _ in range(N)]
            if H:
                hyps[0][0] = eos
            c = self._targets_case(rng, refs, hyps, eos, False, True, bool(i % 2), next_costs(), -100, "functional")
            c["kind"] = "excluded"
            yield c

    def _targets_case(self, rng, refs, hyps, eos, ie, ex, bf, costs, padding, entry):
        return {"kind": "targets", "refs": refs, "hyps": hyps, "eos": eos, "include_eos": ie,
                "exclude_last": ex, "batch_first": bf, "ins": costs[0], "del": costs[1], "sub": costs[2],
                "padding": padding, "entry": entry}

    # ------------------------------------------------------------------ implementation
    @staticmethod
    def _tensors(case):
        import torch
        N = len(case["refs"])
        R = len(case["refs"][0]) if N else 0
        H = len(case["hyps"][0]) if N else 0
        ref = torch.tensor(case["refs"], dtype=torch.long).reshape(N, R)
        hyp = torch.tensor(case["hyps"], dtype=torch.long).reshape(N, H)
        if not case["batch_first"]:
            ref, hyp = ref.t().contiguous(), hyp.t().contiguous()
        return ref, hyp

    @staticmethod
    def _loss_inputs(case):
        """logits (H, N, V) float32 from the case's own seed, torch's log_softmax of them."""
        import torch
        N = len(case["refs"])
        H = len(case["hyps"][0])
        V = case["V"]
        r = random.Random(case["lseed"])
        vals = [[[r.gauss(0.0, 2.5) for _ in range(V)] for _ in range(N)] for _ in range(H)]
        logits = torch.tensor(vals, dtype=torch.float32).reshape(H, N, V)
        lsm = torch.log_softmax(logits, -1)
        return logits, lsm

    def run_impl(self, case):
        import torch
        from pydrobert.torch import functional as F, modules as M
        with warnings.catch_warnings():
            warnings.simplefilter("ignore")
            if case["kind"] == "malformed":
                return self._run_malformed(case, torch, F)
            ref, hyp = self._tensors(case)
            kw = dict(eos=case["eos"], include_eos=case["include_eos"], batch_first=case["batch_first"],
                      ins_cost=_f(case["ins"]), del_cost=_f(case["del"]), sub_cost=_f(case["sub"]))
            if case["kind"] in ("targets", "excluded"):
                kw.update(padding=case["padding"], exclude_last=case["exclude_last"])
                if case["entry"] == "module":
                    out = M.OptimalCompletion(**kw)(ref, hyp)
                else:
                    out = F.optimal_completion(ref, hyp, warn=False, **kw)
                if case["batch_first"]:
                    out = out.transpose(0, 1)
                return {"shape": list(out.shape), "rows": out.tolist()}
            # loss
            logits, _ = self._loss_inputs(case)
            if case["batch_first"]:
                logits = logits.transpose(0, 1).contiguous()
            weight = None
            if case["weight"] is not None:
                weight = torch.tensor([_f(w) for w in case["weight"]], dtype=torch.float32)
            res = {}
            for red in ("none", "sum", "mean"):
                if case["entry"] == "module":
                    v = M.HardOptimalCompletionDistillationLoss(
                        weight=weight, reduction=red, ignore_index=case["ignore_index"], **kw)(
                        logits, ref, hyp, warn=False)
                else:
                    v = F.hard_optimal_completion_distillation_loss(
                        logits, ref, hyp, weight=weight, reduction=red, ignore_index=case["ignore_index"],
                        warn=False, **kw)
                if red == "none":
                    if case["batch_first"]:
                        v = v.transpose(0, 1)
                    res[red] = [[frac_str(x) for x in row] for row in v.tolist()]
                else:
                    res[red] = frac_str(v.item())
            return res

    def _run_malformed(self, case, torch, F):
        what = case["what"]
        r = random.Random(case["seed"])
        N, R, H, V = r.choice([1, 2, 3]), r.choice([1, 2, 3]), r.choice([1, 2, 3]), 4
        ref = torch.randint(0, V, (R, N), generator=torch.Generator().manual_seed(case["seed"]))
        hyp = torch.randint(0, V, (H, N), generator=torch.Generator().manual_seed(case["seed"] + 1))
        logits = torch.zeros((H, N, V))
        if what == "batch_mismatch":
            F.optimal_completion(ref, torch.zeros((H, N + 1), dtype=torch.long), warn=False)
        elif what == "ref_1d":
            F.optimal_completion(ref[:, 0], hyp, warn=False)
        elif what == "hyp_3d":
            F.optimal_completion(ref, hyp.unsqueeze(-1), warn=False)
        elif what == "logits_2d":
            F.hard_optimal_completion_distillation_loss(logits[..., 0], ref, hyp, warn=False)
        elif what == "logits_shape":
            F.hard_optimal_completion_distillation_loss(torch.zeros((H + 1, N, V)), ref, hyp, warn=False)
        elif what == "eos_not_class":
            F.hard_optimal_completion_distillation_loss(logits, ref, hyp, eos=V, include_eos=True, warn=False)
        elif what == "eos_is_ignore":
            F.hard_optimal_completion_distillation_loss(logits, ref, hyp, eos=1, include_eos=True,
                                                        ignore_index=1, warn=False)
        elif what == "bad_reduction":
            F.hard_optimal_completion_distillation_loss(logits, ref, hyp, reduction="avg", warn=False)
        return {"returned": True}

    # ------------------------------------------------------------------ model
    def model_request(self, case):
        if case["kind"] in ("malformed", "excluded"):
            return None
        base = {"eos": case["eos"], "include_eos": case["include_eos"], "ins": case["ins"],
                "del": case["del"], "sub": case["sub"], "refs": case["refs"], "hyps": case["hyps"]}
        if case["kind"] == "targets":
            base.update(exclude_last=case["exclude_last"], padding=case["padding"])
            return {"op": "c03.targets", "case": base}
        _, lsm = self._loss_inputs(case)
        base.update(exclude_last=True, padding=case["ignore_index"], ignore_index=case["ignore_index"],
                    weight=case["weight"],
                    lsm=[[[frac_str(x) for x in vec] for vec in row] for row in lsm.tolist()])
        return {"op": "c03.loss", "case": base}

    # ------------------------------------------------------------------ helpers
    @staticmethod
    def _strip(row, pad):
        """-> (targets, ok) where ok says that padding occurs only as a suffix."""
        n = len(row)
        while n > 0 and row[n - 1] == pad:
            n -= 1
        return row[:n], pad not in row[:n]

    @staticmethod
    def _valid_count(case, hyp_len):
        return hyp_len if case.get("exclude_last", True) else hyp_len + 1

    def _check_model_vs_oracle(self, case, model):
        """The theorems say the model's lists are the oracle's sets; a mismatch is a machinery error."""
        pad = case["padding"]
        N = len(case["refs"])
        for n in range(N):
            nv = self._valid_count(case, model["hyp_lens"][n])
            for k in range(model["Hp"]):
                got, ok = self._strip(model["rows"][k][n], pad)
                want = sorted(model["oracle"][n][k]) if k < nv else []
                if not ok or got != want:
                    raise AssertionError(f"model != spec at column {n} prefix {k}: model {got} oracle {want}")

    # ------------------------------------------------------------------ correspondence
    def compare(self, case, impl, model):
        if case["kind"] == "targets":
            self._check_model_vs_oracle(case, model)
            if "error" in impl:
                return [f"implementation raised {impl['error']}: {impl.get('message')}"]
            N = len(case["refs"])
            out = []
            if impl["shape"][:2] != [model["Hp"], N]:
                return [f"shape impl={impl['shape']} model={[model['Hp'], N, model['C']]}"]
            for k in range(model["Hp"]):
                for n in range(N):
                    a, _ = self._strip(impl["rows"][k][n], case["padding"])
                    b, _ = self._strip(model["rows"][k][n], case["padding"])
                    if sorted(a) != sorted(b):
                        out.append(f"prefix {k} column {n}: impl {a} model {b}")
            return out[:5]
        if case["kind"] == "loss":
            if "error" in impl:
                return [f"implementation raised {impl['error']}: {impl.get('message')}"]
            return self._loss_diff(impl, {"none": model["none"], "sum": model["sum"], "mean": model["mean"]},
                                   "model")
        return []

    @staticmethod
    def _close(a, b, scale):
        return abs(a - b) <= TOL * max(1.0, scale)

    def _loss_diff(self, impl, ref, name):
        out = []
        mat = [[float(parse_frac(x)) for x in row] for row in ref["none"]]
        scale = sum(abs(x) for row in mat for x in row)
        got = impl["none"]
        if [len(r) for r in got] != [len(r) for r in mat]:
            return [f"loss matrix shape impl={[len(r) for r in got]} {name}={[len(r) for r in mat]}"]
        for k, row in enumerate(mat):
            for n, x in enumerate(row):
                g = float(parse_frac(got[k][n]))
                if not self._close(g, x, abs(x)):
                    out.append(f"loss[{k}][{n}] impl={g!r} {name}={x!r}")
        for red in ("sum", "mean"):
            g, x = float(parse_frac(impl[red])), float(parse_frac(ref[red]))
            if not self._close(g, x, scale):
                out.append(f"{red} impl={g!r} {name}={x!r}")
        return out[:5]

    # ------------------------------------------------------------------ property on the implementation
    def predicate(self, case, impl, model):
        kind = case["kind"]
        if kind == "excluded":
            return []  # never judged
        if kind == "malformed":
            if isinstance(impl, dict) and "error" in impl:
                return []
            return [(f"malformed input '{case['what']}' was accepted silently", "C03.malformed.accepted")]
        if "error" in impl:
            sig = None
            N = len(case["refs"])
            if kind == "targets" and N and len(case["refs"][0]) == 0 and impl["error"] == "IndexError":
                sig = "C03.targets.zero_length_reference_dimension"
            return [(f"{kind}: implementation raised {impl['error']}: {impl.get('message')} on an in-domain "
                     f"input", sig)]
        if model is None:
            return []
        fails = []
        N = len(case["refs"])
        if kind == "targets":
            pad = case["padding"]
            Hp = model["Hp"]
            if len(impl["rows"]) != Hp or any(len(r) != N for r in impl["rows"]):
                return [(f"output has shape {impl['shape']}, expected ({Hp}, {N}, *)", "C03.targets.shape")]
            for n in range(N):
                nv = self._valid_count(case, model["hyp_lens"][n])
                for k in range(Hp):
                    row = impl["rows"][k][n]
                    got, ok = self._strip(row, pad)
                    if not ok:
                        fails.append((f"column {n} prefix {k}: padding inside the list {row}",
                                      "C03.targets.padding_inside"))
                    if len(set(got)) != len(got):
                        fails.append((f"column {n} prefix {k}: a token is listed twice {row}",
                                      "C03.targets.duplicate"))
                    if k >= nv:
                        if got:
                            fails.append((f"column {n} prefix {k} is past the hypothesis's end "
                                          f"(len {model['hyp_lens'][n]}) but lists {got}",
                                          "C03.targets.past_end_not_padding"))
                        continue
                    want = set(model["oracle"][n][k])
                    if set(got) != want:
                        fails.append((f"column {n} prefix {k}: listed {sorted(set(got))} but the tokens that keep "
                                      f"the best reachable distance are {sorted(want)}",
                                      "C03.targets.set_mismatch"))
            return fails[:6]
        # loss: spec value from the oracle sets, reductions recomputed here in exact arithmetic
        cells = [[parse_frac(x) for x in row] for row in model["spec_cells"]]
        H = len(cells)
        ref = {"none": [[frac_str(x) for x in row] for row in cells]}
        ref["sum"] = frac_str(sum((x for row in cells for x in row), Fraction(0)))
        per = []
        for n in range(N):
            nonempty = sum(1 for k in range(H) if model["oracle"][n][k:k + 1] and model["oracle"][n][k]
                           and k < model["hyp_lens"][n])
            per.append(sum((cells[k][n] for k in range(H)), Fraction(0)) / max(nonempty, 1))
        ref["mean"] = frac_str(sum(per, Fraction(0)) / N)
        for d in self._loss_diff(impl, ref, "spec"):
            fails.append((f"loss differs from the average negative log-probability of the target set: {d}",
                          "C03.loss.value"))
        return fails[:4]

    # ------------------------------------------------------------------ evidence
    def _cuts(self, case):
        eos, ie = case["eos"], case["include_eos"]
        return [(tuple(r[:cut_len(r, eos, ie)]), tuple(h[:cut_len(h, eos, ie)]))
                for r, h in zip(case["refs"], case["hyps"])]

    def nontrivial(self, case, impl):
        if case["kind"] not in ("targets", "loss"):
            return False
        return any(r and h and r != h and len(set(r) | set(h)) > 1 for r, h in self._cuts(case))

    def key(self, case):
        if case["kind"] not in ("targets", "loss"):
            return repr(sorted(case.items()))
        return repr((case["kind"], self._cuts(case), case["ins"], case["del"], case["sub"],
                     case["include_eos"], case.get("exclude_last"), case["batch_first"]))

    def tags(self, case, impl):
        kind = case["kind"]
        t = [f"kind={kind}"]
        if kind == "malformed":
            return t + [f"malformed={case['what']}"]
        t.append(f"cell=ie{int(case['include_eos'])}.ex{int(case.get('exclude_last', True))}."
                 f"bf{int(case['batch_first'])}")
        t.append(f"entry={case['entry']}")
        t.append("eos=" + ("unset" if case["eos"] is None else
                           "absent" if all(case["eos"] not in r for r in case["refs"]) else "present"))
        if case["ins"] == case["del"] == case["sub"]:
            t.append("uniform_cost_shortcut")
        N = len(case["refs"])
        R = len(case["refs"][0]) if N else 0
        H = len(case["hyps"][0]) if N else 0
        t += [f"N={N}", f"R={R}", f"H={H}"]
        cuts = self._cuts(case)
        if any(len(set(r)) < len(r) for r, _ in cuts):
            t.append("repeated_token_in_reference")
        if any(set(full[len(r):]) & set(r) for (r, _), full in zip(cuts, case["refs"])):
            t.append("reference_token_repeated_in_garbage")
        if any(len(r) == 0 for r, _ in cuts):
            t.append("empty_cut_reference")
        if any(len(h) == 0 for _, h in cuts):
            t.append("empty_cut_hypothesis")
        if any(len(h) < H for _, h in cuts):
            t.append("prefixes_past_end")
        if kind in ("targets", "excluded") and isinstance(impl, dict) and "rows" in impl:
            if any(len(self._strip(row, case["padding"])[0]) >= 2 for rows in impl["rows"] for row in rows):
                t.append("prefix_with_several_targets")
        if kind == "loss":
            t.append("weight=" + ("yes" if case["weight"] is not None else "no"))
        return t

    def shrink(self, case):
        if case["kind"] not in ("targets", "loss"):
            return
        N = len(case["refs"])
        R = len(case["refs"][0]) if N else 0
        H = len(case["hyps"][0]) if N else 0
        if N > 1:
            for n in range(N):
                c = dict(case)
                c["refs"] = case["refs"][:n] + case["refs"][n + 1:]
                c["hyps"] = case["hyps"][:n] + case["hyps"][n + 1:]
                yield c
        minH = 1 if (case["kind"] == "loss" or case.get("exclude_last")) else 0
        if H > minH:
            c = dict(case)
            c["hyps"] = [h[:-1] for h in case["hyps"]]
            if not (c.get("exclude_last", True) and any(
                    cut_len(h, case["eos"], case["include_eos"]) == 0 for h in c["hyps"])):
                yield c
        if R > 1:
            c = dict(case)
            c["refs"] = [r[:-1] for r in case["refs"]]
            yield c
        if (case["ins"], case["del"], case["sub"]) != ("1", "1", "1"):
            c = dict(case)
            c["ins"] = c["del"] = c["sub"] = "1"
            yield c
        for opt in ("batch_first", "include_eos"):
            if case.get(opt):
                c = dict(case)
                c[opt] = False
                if not (c.get("exclude_last", True) and any(
                        cut_len(h, c["eos"], c["include_eos"]) == 0 for h in c["hyps"])):
                    yield c
        if case["kind"] == "loss" and case["weight"] is not None:
            c = dict(case)
            c["weight"] = None
            yield c
        if case["entry"] == "module":
            c = dict(case)
            c["entry"] = "functional"
            yield c


CHECK = C03()
