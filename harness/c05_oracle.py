"""C05 — the frame probabilities as a function of the caller's logits, WITHOUT torch and without floats.

The array model replays `ctc_prefix_search_advance` from the probabilities the implementation itself
handed to it (torch's softmax of the logits, the module's fused scores).  That ties the search to the
model, but it says nothing about whether those probabilities are the ones the caller's scores stand
for: a module that normalises in another precision, over another axis, or fuses with other numbers
would agree with the model on every call and still report masses that are not the masses of the input.
This file is the missing leg: the exact value of every frame probability / fused extension score as a
function of the *case's* numbers (the logits are floats, i.e. exact rationals; the LM scores are the
harness LM's, multiples of 1/8):

* the maximum is subtracted in exact rational arithmetic (only differences matter, whatever the magnitude),
* `exp` / `ln` are python's correctly rounded `decimal` functions at `PREC` digits,
* results are rounded to `DIGITS` significant digits (relative error < 1e-35, twenty orders of magnitude
  below float64 round-off) and handed to the Lean specification as exact rationals.

Also in here: how far a floating-point evaluation in a given dtype may legitimately be away from the exact
value (first-order rounding analysis, in units of the dtype's eps), so that the comparison scales with
the INPUT dtype: float64 scores are held to float64 accuracy.
"""
import math
from decimal import Decimal, localcontext
from fractions import Fraction

PREC = 60
DIGITS = 36
NEG = float("-inf")

# machine epsilon and smallest normal number of the floating dtypes the module accepts
EPS = {"f16": Fraction(1, 2 ** 10), "bf16": Fraction(1, 2 ** 7), "f32": Fraction(1, 2 ** 23), "f64": Fraction(1, 2 ** 52)}
TINY = {"f16": Fraction(1, 2 ** 14), "bf16": Fraction(1, 2 ** 126), "f32": Fraction(1, 2 ** 126),
        "f64": Fraction(1, 2 ** 1022)}
# absolute error unit near zero: below its smallest normal number a format has no relative precision and
# vectorised exp may flush to zero (float32, float64, bfloat16 = float32's exponent range); float16 is
# evaluated in float32 inside and rounded once, with gradual underflow: one half-precision subnormal step
FLOOR = dict(TINY, f16=Fraction(1, 2 ** 24))


def _dec(q):
    return Decimal(q.numerator) / Decimal(q.denominator)


def _frac(d):
    """Decimal -> Fraction, rounded to DIGITS significant digits"""
    if d == 0:
        return Fraction(0)
    with localcontext() as ctx:
        ctx.prec = DIGITS
        d = +d
    return Fraction(d)


def softmax_exact(row):
    """row: python floats (exact) or -inf -> probabilities as Decimals at PREC digits (-inf -> 0)"""
    xs = [None if x == NEG else Fraction(x) for x in row]
    mx = max(x for x in xs if x is not None)
    with localcontext() as ctx:
        ctx.prec = PREC
        ctx.Emin = -10 ** 7
        es = [Decimal(0) if x is None else _dec(x - mx).exp() for x in xs]
        z = sum(es)
        return [e / z for e in es]


def row_range(row):
    fin = [x for x in row if x != NEG]
    return max(fin) - min(fin)


def frame_exact(row):
    """logits of one frame (blank last) -> (tok [Fraction], blank Fraction)"""
    ps = [_frac(p) for p in softmax_exact(row)]
    return ps[:-1], ps[-1]


def lm_factor_exact(lm_row, valid, beta):
    """The LM factor of the fusion formula from the LM's scores: softmax (valid mixture) or
    exp(beta * log_softmax) = softmax ** beta (plain fusion).  beta: Fraction (the float the module holds)."""
    ps = softmax_exact(lm_row)
    if valid:
        return [_frac(p) for p in ps]
    with localcontext() as ctx:
        ctx.prec = PREC
        ctx.Emin = -10 ** 7
        b = _dec(beta)
        return [_frac(Decimal(0) if p == 0 else (b * p.ln()).exp()) for p in ps]


def fuse_exact(tok, blank, factor, valid, beta):
    """the documented fusion formulas on exact numbers"""
    if valid:
        rest = sum(tok, Fraction(0))        # = 1 - blank (sum over the non-blank labels)
        return [(1 - beta) * t + beta * f * rest for t, f in zip(tok, factor)]
    return [f * t for t, f in zip(tok, factor)]


# ----------------------------------------------------------------------------- rounding budgets (units of eps)
def frame_units(row):
    """relative rounding error of one softmax output computed in floating point, in units of eps:
    the subtraction of the maximum (|x - max| <= range: half an ulp of it moves exp by range/2), exp (1),
    the sum of V+1 terms ((V+1)/2), the division (1/2); doubled."""
    return Fraction(row_range(row)).limit_denominator(1000) + len(row) + 8


def ext_units(row, rest, valid, fused):
    """the same for a (fused) extension score of that frame; `rest` = exact total probability of the non-blank
    labels"""
    u = frame_units(row)
    if not fused:
        return u
    u += 20                                   # LM softmax / log_softmax / exp on scores within [-4, 4], products
    if valid and rest > 0:
        # the module forms (1 - blank) in floating point: absolute error of half an ulp of 1 plus blank's own
        # error, RELATIVE to the true value `rest` (cancellation when the blank takes nearly everything)
        u += (1 + u) / rest
    return u


def growth(units, eps):
    """(1 + eps)^units - 1 from above: what a product of `units` roundings can be off by"""
    s = float(units * eps)
    return Fraction(math.expm1(s) * 1.0000001) if s < 50 else Fraction(10 ** 30)
