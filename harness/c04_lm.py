"""Harness-side pieces for C04: the hash language model with a THREADED state, the quantising
BeamSearch hook, and the independent history -> scores table.

Nothing here imports pydrobert.torch at module import time (see CONVENTIONS.md).
"""
import itertools
from fractions import Fraction

P = 2147483647  # 2^31 - 1; all hash arithmetic stays far below 2^63
GAPF = 1 << 14         # float mode: selection margin below which a decision counts as a tie = GAPF * eps
TOLF = 1 << 10         # float mode: tolerance on a reported score = TOLF * eps (eps of the accumulating dtype)
MARGIN = 0.12          # distance (in grid units) every value keeps from a rounding boundary
DEPTH_CAP = 14         # the LM refuses to be called deeper than this (guards against hangs)

_rows_cache = {}

# every floating dtype a language model may compute in; eps as torch.finfo(dtype).eps
EPS = {"float16": Fraction(1, 1 << 10), "bfloat16": Fraction(1, 1 << 7),
       "float32": Fraction(1, 1 << 23), "float64": Fraction(1, 1 << 52)}
DTYPES = tuple(EPS)


def lm_dtype(opts, key="dtype"):
    """the floating dtype the (component of the) language model computes its scores in.
    `double: true` is the older spelling of dtype=float64 (kept for stored corpus cases / replays)."""
    d = opts.get(key)
    if d is None and key == "dtype2":
        d = opts.get("dtype")
    if d is None:
        d = "float64" if opts.get("double") else "float32"
    return d


def lm_dtypes(opts):
    """all dtypes that take part in the model's scores (fusion models: both components)."""
    if opts.get("kind") in ("fusion", "mixfusion"):
        return [lm_dtype(opts), lm_dtype(opts, "dtype2")]
    return [lm_dtype(opts)]


def result_eps(opts):
    """eps of the dtype the search accumulates in: torch's promotion of the float32 start score with
    everything the language model hands over (float16 + bfloat16 promote to float32 as well)."""
    start = EPS["float64"] if opts.get("default64") else EPS["float32"]
    return min([start] + [EPS[d] for d in lm_dtypes(opts)])


class default_dtype:
    """`torch.set_default_dtype(torch.float64)` for the duration (opts["default64"]): the search's start
    score and everything the library creates without an explicit dtype is then double."""

    def __init__(self, opts):
        self.on = bool(opts.get("default64"))

    def __enter__(self):
        if self.on:
            import torch
            self.old = torch.get_default_dtype()
            torch.set_default_dtype(torch.float64)

    def __exit__(self, *a):
        if self.on:
            import torch
            torch.set_default_dtype(self.old)
        return False


def tdtype(name):
    import torch
    return getattr(torch, name)


def quantise(x, qbits):
    """round to multiples of 2^-qbits, clamp to [-30, 0], keep -inf. x: float tensor."""
    import torch
    s = float(1 << qbits)
    q = torch.round(x.double() * s) / s
    q = q.clamp(-30.0, 0.0)
    q = torch.where(torch.isinf(x) & (x < 0), torch.full_like(q, float("-inf")), q)
    return q.to(x.dtype)


def _filter_safe(rows, qbits):
    """Keep the logit rows whose log_softmax, in float32 and float64 alike, stays MARGIN grid units
    away from every rounding boundary of the 2^-qbits grid (so that quantisation cannot depend on
    the last bits of the float computation)."""
    import torch
    s = float(1 << qbits)
    ok = torch.ones(rows.size(0), dtype=torch.bool)
    for dt in (torch.float64, torch.float32):
        ls = rows.to(dt).log_softmax(-1).double()
        fin = ~torch.isinf(ls)
        fr_ = (ls * s - torch.floor(ls * s) - 0.5).abs()
        ok &= ((fr_ > MARGIN) | ~fin).all(1)
    a = quantise(rows.float().log_softmax(-1), qbits).double()
    b = quantise(rows.log_softmax(-1), qbits)
    ok &= ((a == b) | (torch.isinf(a) & torch.isinf(b))).all(1)
    return rows[ok].float().contiguous()


BIG_V = 16             # vocabularies beyond this: rows with pairwise DISTINCT logits, fewer rows per table


def safe_rows(V, qbits, kind):
    """A fixed pseudo-random table of logit rows per (V, qbits, kind).
    kind: "plain" | "zeros" (every row has at least one -inf and one finite entry) |
    ("favour", e) (entry e is 0, the others are <= -3) | ("without", e) (entry e is -inf) | ("rare", e, k) (entry e lowered by k). Deterministic; cached.
    V <= 16: multiples of 1/64 in [-6, 0], 6000 candidate rows. Larger vocabularies (size classes): 192
    candidate rows whose V logits are pairwise different multiples of 1/64 in [-max(385, 3V)/64, 0] (with 385
    values for a thousand tokens every row would be full of exact ties).
    All logits of a row are multiples of 1/64, so log_softmax shifts them by ONE constant: whether a row
    stays clear of the rounding boundaries of the 2^-qbits grid is a single condition per row, whatever V is
    (about three rows in four pass)."""
    import numpy as np
    import torch
    key = (V, qbits, kind)
    if key in _rows_cache:
        return _rows_cache[key]
    rs = np.random.RandomState(977 + 31 * V + (0 if kind == "plain" else 7 if kind == "zeros" else
                                               13 + kind[1] if kind[0] == "favour" else
                                               5003 + kind[1] if kind[0] == "without" else 9001 + kind[1]))
    big = V > BIG_V
    n = 192 if big else 6000

    def draw(hi):
        if not big:
            return rs.randint(0, hi, size=(n, V)).astype("float64")
        R = max(hi, 3 * V)      # a sample of V different values out of R, per row
        return rs.rand(n, R).argsort(1)[:, :V].astype("float64")
    if kind in ("plain", "zeros") or kind[0] in ("without", "rare"):
        rows = -draw(385) / 64.0
    if kind[0] == "without":
        rows[:, kind[1]] = float("-inf")        # token e impossible (V >= 2)
    if kind[0] == "rare":
        rows[:, kind[1]] -= float(kind[2])      # token e unlikely: its logit lowered by a whole number
    if kind == "zeros":
        mask = rs.rand(n, V) < 0.4
        mask[np.arange(n), rs.randint(0, V, size=n)] = True
        mask[mask.all(1)] = False          # never a row without a finite entry
        rows[mask] = float("-inf")
        rows = rows[np.isinf(rows).any(1) & ~np.isinf(rows).all(1)]
    elif kind[0] == "favour":
        e = kind[1]
        rows = -3.0 - draw(193) / 64.0
        rows[:, e] = 0.0
    out = _filter_safe(torch.tensor(rows, dtype=torch.float64), qbits)
    assert out.size(0) >= 1 if V == 1 else out.size(0) >= (32 if big else 64), (key, out.size(0))
    _rows_cache[key] = out
    return out


def neartie_delta(opts):
    """the spacing of the near-tie offsets: 2^neartie decision margins of the accumulating dtype."""
    nt = opts.get("neartie")
    return None if nt is None else float(Fraction(1 << nt) * GAPF * result_eps(opts))


def _hash_lm(V, qbits, opts, salt=0, dtype="float32", delta=None):
    """opts: {"zeros": bool, "uniform": bool, "hard_force": bool, "view": bool}. Returns the LM module.
    `salt` separates the hash streams of the two components of a fusion model; `dtype` is the floating
    dtype the logits are handed over in; `delta` (float mode only) switches the near-tie rows on."""
    import torch
    from pydrobert.torch.modules import MixableSequentialLanguageModel

    class HashLM(MixableSequentialLanguageModel):
        """Logits are a deterministic hash of a threaded integer state `h` (updated with the
        last token of the history at every call and carried through `extract_by_src`) and of
        the batch element (`ctx`, static input). `ctx[:, 2]` = depth from which eos is
        favoured/forced (-1: never), `ctx[:, 3]` = the eos token to favour."""

        def __init__(self):
            super().__init__(V)
            self.rows = safe_rows(V, qbits, "plain")
            self.zrows = safe_rows(V, qbits, "zeros") if opts.get("zeros") and V > 1 else None
            # rows that favour token e (0 for e, at most -3 for the others) are fetched when a batch element
            # asks for them (`safe_rows` caches; a thousand tables for a thousand tokens are never needed)
            self.calls = []
            self.hists = [] if opts.get("lazy") else None

        def update_input(self, prev, hist):
            if "h" in prev:
                return prev
            out = dict(prev)
            if "ctx" not in prev:
                # no initial state at all (`initial_state=None`): every batch element is the same model
                ctx = torch.zeros((hist.size(1), 4), dtype=torch.long)
                ctx[:, 2] = -1
                out["ctx"] = ctx
            ctx = out["ctx"]
            out["h"] = (ctx[:, 0] * 16807 + 11 + 7919 * salt) % P
            return out

        def calc_idx_log_probs(self, hist, prev, idx):
            i = int(idx)
            if i > opts.get("cap", DEPTH_CAP):
                raise RuntimeError("harness LM: depth cap exceeded (search does not terminate)")
            h, ctx = prev["h"], prev["ctx"]
            if i > 0:
                tok = hist[i - 1]          # IndexError if idx is beyond the history (contract)
                h = (h * 48271 + (tok + 1) * 69621 + 12345) % P
            self.calls.append((i, hist.size(0), hist.size(1)))
            if self.hists is not None:
                self.hists.append(hist[:i].clone())
            sel = (h * 40692 + ctx[:, 1] * 40014 + 7 + 104729 * salt) % P
            if opts.get("uniform"):
                logits = torch.zeros((hist.size(1), V), dtype=torch.float32)
            else:
                logits = self.rows.index_select(0, sel % self.rows.size(0))
                if self.zrows is not None:
                    z = self.zrows.index_select(0, (sel // 7) % self.zrows.size(0))
                    logits = torch.where(((sel // 3) % 3 == 0).unsqueeze(1), z, logits)
            late = (ctx[:, 2] > i) if opts.get("eos_late") and not opts.get("uniform") else None
            if late is not None and bool(late.any()):
                # eos is impossible before the depth from which it is forced (searches that run for dozens of
                # steps without a step limit): rows from the table whose entry e is -inf
                e = ctx[:, 3].clamp(0, V - 1)
                wl = torch.zeros((hist.size(1), V), dtype=torch.float32)
                for ev in sorted(set(int(x) for x in e[late])):
                    m = e == ev
                    wr = safe_rows(V, qbits, ("without", ev))
                    wl[m] = wr.index_select(0, sel[m] % wr.size(0))
                logits = torch.where(late.unsqueeze(1), wl, logits)
            if opts.get("eos_rare") and not opts.get("uniform"):
                # eos is unlikely at every step (its logit lowered by `eos_rare`): in a long search a path ends
                # now and then and stays in the beam, ended, next to paths that go on for dozens of steps
                e = ctx[:, 3].clamp(0, V - 1)
                for ev in sorted(set(int(x) for x in e)):
                    m = e == ev
                    rr = safe_rows(V, qbits, ("rare", ev, int(opts["eos_rare"])))
                    logits = torch.where(m.unsqueeze(1), rr.index_select(0, sel % rr.size(0)), logits)
            force = (ctx[:, 2] >= 0) & (ctx[:, 2] <= i)
            if bool(force.any()):
                e = ctx[:, 3].clamp(0, V - 1)
                if opts.get("hard_force"):
                    forced = torch.full((hist.size(1), V), float("-inf"), dtype=torch.float32)
                    forced.scatter_(1, e.unsqueeze(1), 0.0)
                else:
                    forced = torch.zeros((hist.size(1), V), dtype=torch.float32)
                    for ev in sorted(set(int(x) for x in e[force])):
                        m = e == ev
                        fr_ = safe_rows(V, qbits, ("favour", ev))
                        forced[m] = fr_.index_select(0, sel[m] % fr_.size(0))
                logits = torch.where(force.unsqueeze(1), forced, logits)
            if opts.get("scale"):
                # large-magnitude logits (exact: a power of two): log-probabilities of -100 .. -800, where
                # exp() of a difference underflows in float32 / float64
                logits = logits * float(opts["scale"])
            if delta is not None:
                # near-ties: the row is coarsened to whole numbers (many exact ties between the tokens),
                # then every token gets its own offset j * delta, j = 0..V-1 in an order that depends on
                # the threaded state. delta is a small multiple of the decision margin of the dtype the
                # search accumulates in - for a float64 model far below what float32 can resolve.
                j = (sel.unsqueeze(1) + torch.arange(V).unsqueeze(0)) % V
                fin = ~torch.isinf(logits)
                logits = torch.where(fin, torch.round(logits.double()) + j.double() * delta,
                                     logits.double())
            logits = logits.to(tdtype(dtype))
            if opts.get("view"):
                # hand the logits over as a non-contiguous view (left part of a wider tensor)
                logits = torch.cat([logits, torch.full_like(logits[:, :1], 7.0)], 1)[:, :-1]
            return logits, {"h": h, "ctx": ctx}

        def extract_by_src(self, prev, src):
            return {"h": prev["h"].index_select(0, src), "ctx": prev["ctx"].index_select(0, src)}

        def mix_by_mask(self, prev_true, prev_false, mask):
            return {k: torch.where(mask.unsqueeze(1) if prev_true[k].dim() == 2 else mask,
                                   prev_true[k], prev_false[k]) for k in prev_true}

    return HashLM()


REC_H = 3


def rec_h0(opts, ctx):
    """the caller-given initial recurrent state of the "rec" model: one row of REC_H values per batch
    element, derived from the element's seeds, in the model's own dtype (thirds/sevenths: the value
    depends on the dtype)."""
    import torch
    k = torch.tensor([1, 3, 5], dtype=torch.long)
    raw = ((ctx[:, :1] * k + ctx[:, 1:2]) % 193 - 96).double() / 67.0
    return raw.to(tdtype(lm_dtype(opts)))


def _rec_lm(V, opts):
    """A recurrent model whose threaded state is a FLOATING tensor in the model's own dtype:
    h' = h * a + emb[last token], logits = bias + sum_j h_j * out[j]. The initial state comes from the
    caller (`initial_state["h"]`, in that dtype) or defaults to zeros. Only correctly rounded elementwise
    operations (mul, add, gather) are used, written out term by term, so a row's value cannot depend on
    what else is in the batch; the parameters are not dyadic, so what is computed depends on the dtype.
    Float mode only."""
    import numpy as np
    import torch
    from pydrobert.torch.modules import MixableSequentialLanguageModel

    class RecLM(MixableSequentialLanguageModel):
        def __init__(self):
            super().__init__(V)
            rs = np.random.RandomState(4243 + 17 * V)
            self.register_buffer("a", torch.tensor([0.5, -0.75, 0.625], dtype=torch.float64))
            self.register_buffer("emb", torch.tensor(
                rs.randint(-96, 97, size=(V, REC_H)) / 74.0, dtype=torch.float64))
            self.register_buffer("out", torch.tensor(
                rs.randint(-64, 65, size=(REC_H, V)) / 110.0, dtype=torch.float64))
            self.register_buffer("bias", torch.tensor(
                rs.randint(-96, 1, size=(V,)) / 29.0, dtype=torch.float64))
            self.calls = []
            self.hists = [] if opts.get("lazy") else None

        def update_input(self, prev, hist):
            if "ctx" in prev and "h" in prev:
                return prev
            out = dict(prev)
            if "ctx" not in prev:
                ctx = torch.zeros((hist.size(1), 4), dtype=torch.long)
                ctx[:, 2] = -1
                out["ctx"] = ctx
            if "h" not in prev:
                out["h"] = torch.zeros((hist.size(1), REC_H), dtype=self.a.dtype)
            return out

        def calc_idx_log_probs(self, hist, prev, idx):
            i = int(idx)
            if i > opts.get("cap", DEPTH_CAP):
                raise RuntimeError("harness LM: depth cap exceeded (search does not terminate)")
            h, ctx = prev["h"], prev["ctx"]
            if i > 0:
                tok = hist[i - 1]
                h = h * self.a + self.emb.index_select(0, tok)
            self.calls.append((i, hist.size(0), hist.size(1)))
            if self.hists is not None:
                self.hists.append(hist[:i].clone())
            logits = self.bias.unsqueeze(0) + h[:, 0:1] * self.out[0]
            for j in range(1, REC_H):
                logits = logits + h[:, j:j + 1] * self.out[j]
            if opts.get("scale"):
                logits = logits * float(opts["scale"])
            if opts.get("eos_rare"):
                onehot = torch.zeros((hist.size(1), V), dtype=torch.bool).scatter_(
                    1, ctx[:, 3].clamp(0, V - 1).unsqueeze(1), True)
                logits = torch.where(onehot, logits - float(opts["eos_rare"]), logits)
            if opts.get("eos_late"):
                late = (ctx[:, 2] > i).unsqueeze(1) & torch.zeros((hist.size(1), V), dtype=torch.bool).scatter_(
                    1, ctx[:, 3].clamp(0, V - 1).unsqueeze(1), True)
                logits = torch.where(late, torch.full_like(logits, float("-inf")), logits)
            force = (ctx[:, 2] >= 0) & (ctx[:, 2] <= i)
            if bool(force.any()):
                e = ctx[:, 3].clamp(0, V - 1)
                onehot = torch.zeros((hist.size(1), V), dtype=torch.bool).scatter_(1, e.unsqueeze(1), True)
                if opts.get("hard_force"):
                    forced = torch.where(onehot, torch.zeros_like(logits),
                                         torch.full_like(logits, float("-inf")))
                else:
                    forced = torch.where(onehot, logits + 9.0, logits)
                logits = torch.where(force.unsqueeze(1), forced, logits)
            if opts.get("view"):
                logits = torch.cat([logits, torch.full_like(logits[:, :1], 7.0)], 1)[:, :-1]
            return logits, {"h": h, "ctx": ctx}

        def extract_by_src(self, prev, src):
            return {"h": prev["h"].index_select(0, src), "ctx": prev["ctx"].index_select(0, src)}

        def mix_by_mask(self, prev_true, prev_false, mask):
            return {k: torch.where(mask.unsqueeze(1), prev_true[k], prev_false[k]) for k in prev_true}

    lm = RecLM()
    if lm_dtype(opts) != "float64":
        lm = lm.to(tdtype(lm_dtype(opts)))
    return lm


def lookup_dicts(V, order, sos, seed):
    """A random sparse back-off n-gram table (every in-vocabulary unigram present and finite, so every
    row the model produces has finite entries). Values are multiples of 1/8 (V <= 16; all n-grams are
    considered, 55 % kept) or, for large vocabularies, multiples of 2^-12 in (-16, 0] (a thousand tokens
    on 49 values would be nothing but ties) with 4V sampled n-grams per order."""
    import random
    rng = random.Random(seed)
    shift = 0 if 0 <= sos < V else 1
    toks = list(range(V))
    ctx_toks = toks + ([sos] if shift else [])
    big = V > BIG_V

    def lp():
        return -rng.randrange(0, 1 << 16) / 4096.0 if big else -rng.randrange(0, 49) / 8.0

    def lb():
        return -rng.randrange(0, 9) / 8.0

    def keys(n):
        if not big:
            return itertools.product(*([ctx_toks] * (n - 1) + [toks]))
        out = set()
        for _ in range(4 * V):
            body = [rng.choice(toks) for _ in range(n - 1)]
            if shift and rng.random() < 0.2:        # sos only as a (repeated) prefix of the context
                for i in range(rng.randrange(1, n)):
                    body[i] = sos
            out.add(tuple(body + [rng.choice(toks)]))
        return sorted(out)
    dicts = []
    for n in range(1, order + 1):
        d = {}
        if n == 1:
            for t in ctx_toks:
                d[t] = lp() if order == 1 else (lp(), lb())
        else:
            for key in keys(n):
                # sos only as a (repeated) prefix of the context
                body = list(key[:-1])
                while body and body[0] == sos and shift:
                    body.pop(0)
                if shift and sos in body:
                    continue
                if big or rng.random() < 0.55:
                    d[key] = lp() if n == order else (lp(), lb())
            if not d:        # the library refuses an empty table of the highest order
                key = tuple([toks[0]] * n)
                d[key] = lp() if n == order else (lp(), lb())
        dicts.append(d)
    return dicts


def make_lm(V, qbits, opts):
    """opts["kind"]: "hash" (default) | "fusion" / "mixfusion" (the library's Extractable- /
    MixableShallowFusionLanguageModel over two hash models, each with its own threaded state) |
    "lookup" (the library's LookupLanguageModel over a random back-off table). Every returned module
    has `.calls` = [(idx, hist.size(0), hist.size(1))] for each calc_idx_log_probs call."""
    kind = opts.get("kind", "hash")
    if kind == "hash":
        return _hash_lm(V, qbits, opts, 0, lm_dtype(opts), neartie_delta(opts))
    if kind == "rec":
        return _rec_lm(V, opts)
    if kind in ("fusion", "mixfusion"):
        from pydrobert.torch.modules import (ExtractableShallowFusionLanguageModel,
                                             MixableShallowFusionLanguageModel)
        first = _hash_lm(V, qbits, opts, 0, lm_dtype(opts), neartie_delta(opts))
        second = _hash_lm(V, qbits, {"view": opts.get("view"), "scale": opts.get("scale"),
                                     "cap": opts.get("cap", DEPTH_CAP)}, 1, lm_dtype(opts, "dtype2"))
        cls = MixableShallowFusionLanguageModel if kind == "mixfusion" else ExtractableShallowFusionLanguageModel
        lm = cls(first, second, float(opts.get("beta", 0.5)))
        lm.calls = first.calls
        lm.hists = first.hists
        return lm
    if kind == "lookup":
        from pydrobert.torch.modules import LookupLanguageModel

        class RecLookup(LookupLanguageModel):
            def calc_idx_log_probs(self, hist, prev, idx):
                if int(idx) > opts.get("cap", DEPTH_CAP):
                    raise RuntimeError("harness LM: depth cap exceeded (search does not terminate)")
                self.calls.append((int(idx), hist.size(0), hist.size(1)))
                if self.hists is not None:
                    self.hists.append(hist[:int(idx)].clone())
                return super().calc_idx_log_probs(hist, prev, idx)
        sos = opts.get("sos", -1)
        lm = RecLookup(V, sos, lookup_dicts(V, opts.get("order", 2), sos, opts.get("table_seed", 1)))
        lm.calls = []
        lm.hists = [] if opts.get("lazy") else None
        if lm_dtype(opts) != "float32":
            lm = lm.to(tdtype(lm_dtype(opts)))     # what a user does: module.double() / .half()
        return lm
    raise ValueError(kind)


def initial_state(opts, ctx):
    """What is handed to BeamSearch as `initial_state` (ctx: (N, 4) long tensor)."""
    kind = opts.get("kind", "hash")
    if opts.get("noctx"):
        return None
    if kind == "lookup":
        return {}
    if kind in ("fusion", "mixfusion"):
        return {"first.ctx": ctx, "second.ctx": ctx}
    if kind == "rec":
        if opts.get("h0") is False:        # the recurrent state is left to the model's default (zeros)
            return {"ctx": ctx}
        return {"ctx": ctx, "h": rec_h0(opts, ctx)}
    return {"ctx": ctx}


def make_ctx(seeds, force_depths, eos_tok):
    import torch
    rows = []
    for (a, b), d in zip(seeds, force_depths):
        rows.append([a % P, b % P, -1 if d is None else d, 0 if eos_tok is None else eos_tok])
    return torch.tensor(rows, dtype=torch.long).reshape(len(rows), 4)


def build_table(lm, ctx_row, qbits, depth, eos_tok, opts=None, quant=True):
    """history -> scores, by running the LM UNBATCHED (one row) along every history of length <= depth
    (children of a history that ends in eos are not expanded). quant: the scores are quantised as the
    hook does; otherwise they are the floats log_softmax returns (exact as python floats)."""
    import torch
    V = lm.vocab_size
    table = {}
    init = initial_state(opts or {}, ctx_row.reshape(1, 4))
    prev0 = lm.update_input(dict() if init is None else init, torch.empty((0, 1), dtype=torch.long))

    def rec(hist, prev):
        L = len(hist)
        ht = torch.tensor(hist, dtype=torch.long).reshape(L, 1)
        logits, nxt = lm.calc_idx_log_probs(ht, prev, torch.tensor(L))
        sc = logits.log_softmax(-1)
        if quant:
            sc = quantise(sc, qbits)
        table[tuple(hist)] = [float(x) for x in sc[0]]
        if L < depth:
            for v in range(V):
                if eos_tok is not None and v == eos_tok:
                    continue
                rec(hist + [v], nxt)

    rec([], prev0)
    return table


class LazyTable:
    """history -> scores like `build_table` (the language model run UNBATCHED, one row, along the history,
    its state threaded from the start), but a history's row is computed when it is first asked for and kept.
    For the size classes (vocabularies of a thousand tokens, step limits of dozens) the full tree of
    histories cannot be enumerated; what is asked for: every history the searched model was called on,
    every prefix of a returned path, whatever the predicates look up.  The Lean model gets the rows known
    at that point and reports a live history it needs and does not find (`flags.missing`).
    Keys never contain eos (`build_table` does not expand below eos either), tokens are in the vocabulary,
    length <= depth; anything else is answered with None."""

    def __init__(self, lm, ctx_row, qbits, depth, eos_tok, opts=None, quant=True):
        import torch
        self.lm, self.qbits, self.depth, self.eos, self.quant = lm, qbits, depth, eos_tok, quant
        self.V = lm.vocab_size
        init = initial_state(opts or {}, ctx_row.reshape(1, 4))
        self.prev0 = lm.update_input(dict() if init is None else init, torch.empty((0, 1), dtype=torch.long))
        self.rows = {}       # history -> [float] * V
        self.nxt = {}        # history -> the state the model returned after scoring it

    def get(self, hist, default=None):
        import torch
        hist = tuple(hist.tolist()) if hasattr(hist, "tolist") else \
            hist if type(hist) is tuple and all(type(x) is int for x in hist) else tuple(int(x) for x in hist)
        if hist in self.rows:
            return self.rows[hist]
        if len(hist) > self.depth or any(not (0 <= x < self.V) or x == self.eos for x in hist):
            return default
        # state before scoring `hist` = state returned after scoring its parent (iteratively from the
        # longest known prefix: step limits of dozens must not recurse)
        k = len(hist)
        while k > 0 and hist[:k - 1] not in self.nxt:
            k -= 1
        for j in range(k, len(hist) + 1):
            h = hist[:j]
            if h in self.rows:
                continue
            prev = self.prev0 if j == 0 else self.nxt[h[:-1]]
            ht = torch.tensor(h, dtype=torch.long).reshape(j, 1)
            logits, nxt = self.lm.calc_idx_log_probs(ht, prev, torch.tensor(j))
            sc = logits.log_softmax(-1)
            if self.quant:
                sc = quantise(sc, self.qbits)
            self.rows[h] = sc[0].tolist()
            self.nxt[h] = nxt
        return self.rows[hist]

    def items(self):
        return self.rows.items()

    def __len__(self):
        return len(self.rows)


def make_search(lm, width, eos, finish_all, pad, qbits, via):
    """A BeamSearch whose update_log_probs_for_step quantises log_probs_t and logs the call."""
    import torch
    from pydrobert.torch.modules import BeamSearch

    def hook(self, log_probs_prev, log_probs_t, y_prev, y_prev_lens, eos_mask):
        q = quantise(log_probs_t, qbits)
        self.hook_log.append((log_probs_prev.clone(), q.clone(), y_prev.clone(),
                              y_prev_lens.clone(), eos_mask.clone()))
        return log_probs_prev, q

    if via == "nohook":
        # the library's own update_log_probs_for_step: nothing is quantised, scores are plain floats
        s = BeamSearch(lm, width, eos, finish_all, pad)
        s.hook_log = None
        return s
    if via == "subclass":
        class QBeam(BeamSearch):
            # `proxy` (= super(self.__class__, self).__call__) recurses forever in a subclass
            __call__ = torch.nn.Module.__call__
            update_log_probs_for_step = hook
        s = QBeam(lm, width, eos, finish_all, pad)
    else:
        import types
        s = BeamSearch(lm, width, eos, finish_all, pad)
        s.update_log_probs_for_step = types.MethodType(hook, s)
    s.hook_log = []
    return s


def fr(x):
    """float -> Fraction or '-inf'."""
    x = float(x)
    if x == float("-inf"):
        return "-inf"
    if x != x or x == float("inf"):
        return "nan" if x != x else "inf"
    return Fraction(x)
