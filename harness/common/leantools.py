"""Phase A (proof obligations) and the line-protocol driver.

Everything here runs the Lean toolchain against /verif/lean as it is on disk now.
"""
import json
import os
import re
import subprocess
import time
from pathlib import Path

VERIF = Path(__file__).resolve().parents[2]
LEAN_DIR = VERIF / "lean"
ALLOWED_AXIOMS = {"propext", "Classical.choice", "Quot.sound"}
FORBIDDEN = [
    (r"\bsorry\b", "sorry"),
    (r"\badmit\b", "admit"),
    (r"^\s*(private\s+|protected\s+)?axiom\b", "axiom"),
    (r"\bnative_decide\b", "native_decide"),
    (r"\bbv_decide\b", "bv_decide"),
    (r"\bimplemented_by\b", "implemented_by"),
    (r"\bextern\b", "extern"),
    (r"\bunsafe\b", "unsafe"),
    (r"maxHeartbeats\s+0\b", "maxHeartbeats 0"),
    (r"\bofReduceBool\b", "ofReduceBool"),
]


class LeanError(Exception):
    pass


def _env():
    e = dict(os.environ)
    e.setdefault("LEAN_NUM_THREADS", "8")
    return e


def obligations(pid):
    """lean/obligations/<pid>.json: {"modules": [...], "theorems": [...], "driver": "Driver/CxxMain.lean"}"""
    p = LEAN_DIR / "obligations" / f"{pid}.json"
    with open(p) as f:
        return json.load(f)


def strip_comments(src):
    """Remove `--` line comments and (nested) `/- -/` block comments; keep line structure."""
    out = []
    i, n, depth = 0, len(src), 0
    in_str = False
    while i < n:
        c = src[i]
        if depth == 0 and not in_str and c == '"':
            in_str = True
            out.append(c)
            i += 1
            continue
        if in_str:
            if c == "\\" and i + 1 < n:
                out.append("  ")
                i += 2
                continue
            if c == '"':
                in_str = False
            out.append(c if c in '"\n' else " ")
            i += 1
            continue
        if src.startswith("/-", i):
            depth += 1
            i += 2
            continue
        if depth > 0:
            if src.startswith("-/", i):
                depth -= 1
                i += 2
                continue
            if c == "\n":
                out.append("\n")
            i += 1
            continue
        if src.startswith("--", i):
            j = src.find("\n", i)
            i = n if j < 0 else j
            continue
        out.append(c)
        i += 1
    return "".join(out)


def local_closure(modules):
    """Transitive closure of local (PdtVerif.* / Driver.*) imports -> list of source paths."""
    seen, todo, files = set(), list(modules), []
    while todo:
        m = todo.pop()
        if m in seen:
            continue
        seen.add(m)
        p = LEAN_DIR / (m.replace(".", "/") + ".lean")
        if not p.exists():
            continue
        files.append(p)
        for line in p.read_text().splitlines():
            mm = re.match(r"\s*(?:public\s+)?import\s+([A-Za-z0-9_.]+)", line)
            if mm and (mm.group(1).startswith("PdtVerif") or mm.group(1).startswith("Driver")):
                todo.append(mm.group(1))
    return sorted(files)


def scan_forbidden(modules):
    hits = []
    for p in local_closure(modules):
        code = strip_comments(p.read_text())
        for ln, line in enumerate(code.splitlines(), 1):
            for rx, name in FORBIDDEN:
                if re.search(rx, line):
                    hits.append(f"{p.relative_to(VERIF)}:{ln}: {name}")
    return hits


def model_imports_mathlib(driver_modules):
    """Models used by the driver must stay Mathlib-free (they are the executable side)."""
    bad = []
    for p in local_closure(driver_modules):
        for line in p.read_text().splitlines():
            if re.match(r"\s*import\s+(Mathlib|Batteries|Aesop)", line):
                bad.append(str(p.relative_to(VERIF)))
    return bad


def lake_build(targets, timeout=3000):
    t0 = time.time()
    r = subprocess.run(
        ["lake", "build"] + list(targets),
        cwd=LEAN_DIR, capture_output=True, text=True, timeout=timeout, env=_env(),
    )
    return r.returncode == 0, (r.stdout + r.stderr), time.time() - t0


def audit_axioms(pid, modules, theorems, timeout=1800):
    """#print axioms on every listed theorem. Returns {theorem: (ok, detail)}."""
    adir = LEAN_DIR / ".lake" / "audit"
    adir.mkdir(parents=True, exist_ok=True)
    f = adir / f"{pid}.lean"
    lines = [f"import {m}" for m in modules]
    for t in theorems:
        lines.append(f"#print axioms {t}")
    f.write_text("\n".join(lines) + "\n")
    r = subprocess.run(
        ["lake", "env", "lean", str(f)],
        cwd=LEAN_DIR, capture_output=True, text=True, timeout=timeout, env=_env(),
    )
    out = r.stdout + r.stderr
    res = {}
    # messages may wrap over several lines; normalise whitespace
    flat = re.sub(r"\s+", " ", out)
    for t in theorems:
        short = re.escape(t)
        m = re.search(r"'" + short + r"' depends on axioms: \[([^\]]*)\]", flat)
        if m:
            axs = {a.strip() for a in m.group(1).split(",") if a.strip()}
            extra = axs - ALLOWED_AXIOMS
            res[t] = (not extra, "axioms: " + ", ".join(sorted(axs)))
            continue
        if re.search(r"'" + short + r"' does not depend on any axioms", flat):
            res[t] = (True, "axioms: none")
            continue
        res[t] = (False, "not found / did not elaborate")
    return res, out


def phase_a(pid, leanchecker=False):
    """Build the property's modules, scan, audit. Returns dict with obligations/discharged."""
    ob = obligations(pid)
    modules = ob["modules"]
    theorems = ob["theorems"]
    driver_mods = ob.get("driver_modules", [])
    info = {
        "obligations": len(theorems), "discharged": 0, "theorems": {},
        "build_ok": False, "problems": [],
        "checker_cmd": f"cd lean && lake build {' '.join(modules + driver_mods)} && "
                       f"lake env lean .lake/audit/{pid}.lean  # #print axioms on each obligation",
    }
    ok, log, dt = lake_build(modules + driver_mods)
    info["build_s"] = round(dt, 2)
    info["build_ok"] = ok
    if not ok:
        errs = [l for l in log.splitlines() if "error" in l.lower()][:12]
        info["problems"].append("lake build failed: " + " | ".join(errs))
        # find which theorems still elaborate is not possible without a build; all undischarged
        for t in theorems:
            info["theorems"][t] = "build failed"
        return info
    hits = scan_forbidden(modules)
    if hits:
        info["problems"].append("forbidden tokens: " + "; ".join(hits[:10]))
    bad = model_imports_mathlib(driver_mods)
    if bad:
        info["problems"].append("driver-side modules import Mathlib: " + ", ".join(bad))
    res, out = audit_axioms(pid, modules, theorems)
    for t, (tok, detail) in res.items():
        info["theorems"][t] = detail
        if tok and not hits:
            info["discharged"] += 1
        elif not tok:
            info["problems"].append(f"{t}: {detail}")
    if leanchecker:
        t0 = time.time()
        r = subprocess.run(["lake", "env", "leanchecker"] + modules, cwd=LEAN_DIR,
                           capture_output=True, text=True, timeout=3000, env=_env())
        info["leanchecker_s"] = round(time.time() - t0, 1)
        info["leanchecker_ok"] = r.returncode == 0
        info["checker_cmd"] += f" && lake env leanchecker {' '.join(modules)}"
        if r.returncode != 0:
            info["problems"].append("leanchecker failed: " + (r.stdout + r.stderr)[-400:])
            info["discharged"] = 0
    return info


def run_driver(driver_file, requests, timeout=3000):
    """Send a batch of {"op","case"} objects to the Lean driver; return list of replies.

    Reply i is {"ok": ...} or {"err": "..."}."""
    if not requests:
        return []
    payload = "\n".join(json.dumps(r, separators=(",", ":")) for r in requests) + "\n"
    r = subprocess.run(
        ["lake", "env", "lean", "--run", driver_file],
        cwd=LEAN_DIR, input=payload, capture_output=True, text=True, timeout=timeout, env=_env(),
    )
    # split on "\n" only: str.splitlines() would also break at U+0085/U+2028/U+2029 inside JSON strings
    lines = [l for l in r.stdout.split("\n") if l.strip()]
    if r.returncode != 0 or len(lines) != len(requests):
        raise LeanError(
            f"driver {driver_file} exit={r.returncode}, {len(lines)} replies for "
            f"{len(requests)} requests; stderr: {r.stderr[-800:]} stdout-tail: {r.stdout[-300:]}"
        )
    return [json.loads(l) for l in lines]
