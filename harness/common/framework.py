"""The three-phase pipeline shared by all properties (DESIGN.md section 1).

A property module `harness/cXX.py` defines `CHECK = SomeCheck()` deriving from
`PropertyCheck` below.
"""
import hashlib
import json
import os
import random
import sys
import time
import traceback
from fractions import Fraction
from pathlib import Path

from . import leantools

VERIF = Path(__file__).resolve().parents[2]
REPO = Path(os.environ.get("VERIF_REPO", "/repo"))
GUARD = "PYDROBERT_TORCH_VERIF"


def use_repo():
    """Make `import pydrobert.torch` resolve to REPO's current working tree."""
    src = str(REPO / "src")
    if src not in sys.path:
        sys.path.insert(0, src)
    os.environ.setdefault(GUARD, "1")
    os.environ.setdefault("OMP_NUM_THREADS", "2")
    os.environ.setdefault("MKL_NUM_THREADS", "2")


# ---------------------------------------------------------------- exact numbers
def frac_str(x):
    """float/int/Fraction -> 'n/d' exact; inf/nan -> words."""
    if isinstance(x, Fraction):
        f = x
    elif isinstance(x, int):
        return str(x)
    else:
        x = float(x)
        if x != x:
            return "nan"
        if x == float("inf"):
            return "inf"
        if x == float("-inf"):
            return "-inf"
        f = Fraction(x)
    return str(f.numerator) if f.denominator == 1 else f"{f.numerator}/{f.denominator}"


def parse_frac(s):
    if isinstance(s, (int, float)):
        return Fraction(s)
    if s in ("inf", "-inf", "nan"):
        return s
    return Fraction(s)


# ---------------------------------------------------------------- findings
def load_findings():
    """known_findings.json (the committed list) plus per-property fragments findings/Cxx.json
    (tools/merge_findings.py folds the fragments into the committed list). Read-only."""
    out, seen = [], set()
    paths = [VERIF / "known_findings.json"] + sorted((VERIF / "findings").glob("*.json"))
    for p in paths:
        if not p.exists():
            continue
        with open(p) as f:
            for e in json.load(f).get("findings", []):
                k = (e.get("property"), e.get("signature"))
                if k not in seen:
                    seen.add(k)
                    out.append(e)
    return out


class Failure:
    """A property failure observed on the implementation for one case."""

    def __init__(self, case, what, signature=None, detail=None):
        self.case = case
        self.what = what            # human readable
        self.signature = signature  # stable id used for known-finding matching (or None)
        self.detail = detail


class PropertyCheck:
    pid = "C00"
    title = ""
    rule = ""                # how cases are generated, what counts as non-trivial
    assumptions = []         # trusted base / what the model does not cover
    quick_budget_s = 120
    thorough_budget_s = 900

    # ---- to implement ------------------------------------------------------------
    def cases(self, rng, tier):
        """Yield JSON-serialisable case dicts (mostly valid inputs + malformed stream)."""
        raise NotImplementedError

    def run_impl(self, case):
        """Run the real code; return canonical JSON-able observation. Exceptions are
        caught by the framework and turned into {"error": "<class>"}."""
        raise NotImplementedError

    def model_request(self, case):
        """-> {"op": ..., "case": ...} for the Lean driver (or None: no model for this case)."""
        raise NotImplementedError

    def compare(self, case, impl, model):
        """Correspondence: list of strings describing where impl and model differ."""
        return [] if impl == model else [f"impl={short(impl)} model={short(model)}"]

    def predicate(self, case, impl, model):
        """The property itself, evaluated on the implementation's output with the Lean
        spec (part of `model`) as oracle. -> list[Failure-args tuple (what, signature)]."""
        return []

    def nontrivial(self, case, impl):
        return True

    def key(self, case):
        return json.dumps(case, sort_keys=True)

    def shrink(self, case):
        """Yield smaller candidate cases."""
        return []

    def tags(self, case, impl):
        """Labels for the input-distribution histogram in the evidence."""
        return []

    def extra_checks(self, rng, tier, report):
        """Hook for checks that do not fit the case/impl/model scheme (e.g. file-level).
        Append Failure objects to report['failures'] / strings to report['disagreements']."""
        return None


def short(x, n=300):
    s = json.dumps(x, sort_keys=True, default=str)
    return s if len(s) <= n else s[:n] + "..."


def case_hash(case):
    return hashlib.sha1(json.dumps(case, sort_keys=True, default=str).encode()).hexdigest()[:12]


def safe_impl(check, case):
    try:
        return check.run_impl(case)
    except Exception as e:  # an exception on an input is an observation, not a crash
        return {"error": type(e).__name__, "message": str(e)[:200]}


def evaluate(check, cases, driver_file):
    """Run impl + model on cases. Returns list of records."""
    recs = []
    reqs, idx = [], []
    for c in cases:
        impl = safe_impl(check, c)
        rec = {"case": c, "impl": impl, "model": None, "model_err": None}
        recs.append(rec)
        rq = check.model_request(c)
        if rq is not None:
            reqs.append(rq)
            idx.append(len(recs) - 1)
    if reqs:
        replies = leantools.run_driver(driver_file, reqs)
        for i, rep in zip(idx, replies):
            if "ok" in rep:
                recs[i]["model"] = rep["ok"]
            else:
                recs[i]["model_err"] = rep.get("err", "?")
    for rec in recs:
        rec["disagree"] = []
        rec["fail"] = []
        if rec["model_err"] is not None:
            rec["internal"] = f"driver error: {rec['model_err']}"
            continue
        try:
            if rec["model"] is not None:
                rec["disagree"] = list(check.compare(rec["case"], rec["impl"], rec["model"]))
            rec["fail"] = [Failure(rec["case"], *f) if isinstance(f, tuple) else Failure(rec["case"], f)
                           for f in check.predicate(rec["case"], rec["impl"], rec["model"])]
        except Exception as e:
            rec["internal"] = "harness exception: " + "".join(
                traceback.format_exception_only(type(e), e)).strip() + " @ " + traceback.format_exc()[-600:]
    return recs


def shrink_failure(check, case, driver_file, signature, deadline, ignore_sigs=()):
    """Greedy shrinking: keep a smaller case while it still fails (same signature if any; failures
    that are listed known findings never count, so a shrink cannot collapse into a known finding)."""
    cur = case
    improved = True
    steps = 0
    while improved and time.time() < deadline and steps < 60:
        improved = False
        for cand in check.shrink(cur):
            if time.time() > deadline:
                break
            try:
                recs = evaluate(check, [cand], driver_file)
            except Exception:
                continue
            r = recs[0]
            if r.get("internal"):
                continue
            live = [f for f in r["fail"] if f.signature not in ignore_sigs]
            if live and (signature is None or any(f.signature == signature for f in live)):
                cur = cand
                improved = True
                steps += 1
                break
    return cur


def load_corpus(pid):
    d = VERIF / "corpus" / pid
    out = []
    if d.is_dir():
        for p in sorted(d.glob("*.json")):
            with open(p) as f:
                j = json.load(f)
            cs = j["cases"] if isinstance(j, dict) and "cases" in j else [j.get("case", j)]
            for c in cs:
                out.append(c)
    return out


def write_replay(pid, payload):
    d = Path(os.environ.get("VERIF_REPLAY_DIR", VERIF / "replays"))
    d.mkdir(parents=True, exist_ok=True)
    h = hashlib.sha1(json.dumps(payload, sort_keys=True, default=str).encode()).hexdigest()[:10]
    p = d / f"{pid}-{h}.json"
    with open(p, "w") as f:
        json.dump(payload, f, indent=1, sort_keys=True, default=str)
    try:
        return p.relative_to(VERIF)
    except ValueError:
        return p


def write_evidence(pid, tier, seed, cov, assumptions, wall, violations):
    # VERIF_EVIDENCE_DIR: used only when the checks are exercised against seeded changes, so that
    # the committed evidence (always from a run against /repo itself) is not overwritten
    d = Path(os.environ.get("VERIF_EVIDENCE_DIR", VERIF / "evidence"))
    d.mkdir(parents=True, exist_ok=True)
    ev = {
        "property_id": pid, "tier": tier, "seed": seed, "level": "proof",
        "coverage": cov, "assumptions": assumptions, "wall_s": round(wall, 2),
        "violations": violations,
    }
    tmp = d / f".{pid}.json.tmp"
    with open(tmp, "w") as f:
        json.dump(ev, f, indent=1, default=str)
    os.replace(tmp, d / f"{pid}.json")


def repo_state():
    """HEAD and locally modified files of the repository under test (informational)."""
    import subprocess
    try:
        head = subprocess.run(["git", "-C", str(REPO), "rev-parse", "--short", "HEAD"],
                              capture_output=True, text=True, timeout=20).stdout.strip()
        dirty = subprocess.run(["git", "-C", str(REPO), "status", "--porcelain"],
                               capture_output=True, text=True, timeout=20).stdout.split("\n")
        return {"head": head, "modified": [d.strip() for d in dirty if d.strip()][:20]}
    except Exception as e:
        return {"error": repr(e)}


def run_check(check, tier, seed):
    """Returns exit code."""
    t0 = time.time()
    pid = check.pid
    # The budget only guards against run-away generators: on a cold or loaded machine a tight budget would cut
    # the case stream short and make the evidence depend on machine speed, so it is never below 4 / 25 minutes.
    budget = max(check.quick_budget_s, 240) if tier == "quick" else max(check.thorough_budget_s, 1500)
    deadline = t0 + budget
    ob = leantools.obligations(pid)
    driver_file = ob.get("driver")
    known = [f for f in load_findings() if f.get("property") == pid and f.get("status") == "known"]
    known_sigs = {f["signature"]: f for f in known}

    # ---------------- Phase A
    a = leantools.phase_a(pid, leanchecker=(tier == "thorough"))
    proof_broken = a["discharged"] != a["obligations"] or bool(a["problems"])
    driver_ok = a["build_ok"]

    # ---------------- Phase B
    use_repo()
    rng = random.Random(seed)
    all_recs = []
    internal = []
    n_eval = 0
    hist = {}
    keys_nontrivial = set()
    samples = []
    report = {"failures": [], "disagreements": [], "extra": {}}

    def consume(cases):
        nonlocal n_eval
        if not driver_ok:
            # model unavailable: still evaluate the predicate parts that do not need the model
            recs = []
            for c in cases:
                impl = safe_impl(check, c)
                recs.append({"case": c, "impl": impl, "model": None, "disagree": [], "fail": []})
            return recs
        recs = evaluate(check, cases, driver_file)
        for r in recs:
            n_eval += 1
            if r.get("internal"):
                internal.append((r["case"], r["internal"]))
                continue
            try:
                if check.nontrivial(r["case"], r["impl"]):
                    keys_nontrivial.add(check.key(r["case"]))
                for t in check.tags(r["case"], r["impl"]):
                    hist[t] = hist.get(t, 0) + 1
            except Exception as e:
                internal.append((r["case"], f"tags/nontrivial: {e!r}"))
            if isinstance(r["impl"], dict) and "error" in r["impl"]:
                k = "impl_error:" + str(r["impl"]["error"])
                hist[k] = hist.get(k, 0) + 1
            if len(samples) < 3 and not r["fail"] and not r["disagree"] and check.nontrivial(r["case"], r["impl"]):
                samples.append({"case": r["case"], "impl": r["impl"], "model": r["model"]})
        return recs

    corpus = load_corpus(pid)
    batch = list(corpus)
    chunk = 200
    gen = check.cases(rng, tier)
    exhausted = False
    try:
        while True:
            while len(batch) < chunk:
                try:
                    batch.append(next(gen))
                except StopIteration:
                    exhausted = True
                    break
            if batch:
                all_recs.extend(consume(batch))
                batch = []
            if exhausted or time.time() > deadline:
                break
        check.extra_checks(rng, tier, report)
    except leantools.LeanError as e:
        internal.append((None, f"LeanError: {e}"))
    except Exception as e:
        internal.append((None, "generator/harness exception: " + traceback.format_exc()[-1500:]))

    failures = [f for r in all_recs for f in r["fail"]] + list(report["failures"])
    disagreements = [(r["case"], d, r) for r in all_recs for d in r["disagree"]]
    disagreements += [(None, d, None) for d in report["disagreements"]]

    # ---------------- Phase C: search for a property-failing input when A or B broke
    searched = 0
    if (proof_broken or disagreements) and not [f for f in failures if f.signature not in known_sigs] and driver_ok:
        srng = random.Random(seed * 7919 + 13)
        sdeadline = time.time() + min(budget, 300)
        try:
            sgen = check.cases(srng, "search")
            sb = []
            for c in sgen:
                sb.append(c)
                if len(sb) >= chunk:
                    recs = evaluate(check, sb, driver_file)
                    searched += len(sb)
                    sb = []
                    fs = [f for r in recs for f in r["fail"] if f.signature not in known_sigs]
                    failures.extend(fs)
                    if fs or time.time() > sdeadline:
                        break
            if sb and not [f for f in failures if f.signature not in known_sigs]:
                recs = evaluate(check, sb, driver_file)
                searched += len(sb)
                failures.extend(f for r in recs for f in r["fail"] if f.signature not in known_sigs)
        except Exception as e:
            internal.append((None, f"search phase: {e!r}"))

    # ---------------- verdict
    out_lines = []
    new_fail = [f for f in failures if f.signature not in known_sigs]
    seen_known = {}
    for f in failures:
        if f.signature in known_sigs:
            seen_known.setdefault(f.signature, f)
    # every listed finding is announced, reproduced in this run or not
    for sig, kf in known_sigs.items():
        tag = "" if sig in seen_known else " (not reproduced in this run)"
        out_lines.append(f"KNOWN-FINDING: property={pid} {sig}: {kf.get('what', '')}{tag}")

    violations = 0
    replay_path = None
    if new_fail:
        f = new_fail[0]
        case = f.case
        if case is not None and driver_ok:
            try:
                case = shrink_failure(check, case, driver_file, f.signature, time.time() + 60,
                                      ignore_sigs=set(known_sigs))
            except Exception:
                pass
        payload = {
            "property": pid, "kind": "failing-input", "what": f.what, "signature": f.signature,
            "case": case, "original_case": f.case, "detail": f.detail,
            "seed": seed, "tier": tier,
            "proof_problems": a["problems"],
            "n_failures": len(new_fail),
            "other_failures": [{"what": g.what, "case": g.case} for g in new_fail[1:6]],
            "replay": f"./check {pid} --replay <this file>",
        }
        replay_path = write_replay(pid, payload)
        out_lines.append(f"VIOLATION property={pid} replay={replay_path}")
        violations = len(new_fail)
    elif proof_broken or disagreements:
        payload = {
            "property": pid, "kind": "no-failing-input-found", "seed": seed, "tier": tier,
            "broken_theorems": {t: d for t, d in a["theorems"].items()
                                if not d.startswith("axioms:") or not a["build_ok"]},
            "proof_problems": a["problems"],
            "broken_correspondence": [
                {"case": c, "difference": d,
                 "impl": (r or {}).get("impl"), "model": (r or {}).get("model")}
                for c, d, r in disagreements[:5]],
            "n_disagreements": len(disagreements),
            "searched_cases": searched + n_eval,
            "note": "the property is no longer shown to hold: a proof obligation or the "
                    "model/implementation correspondence no longer checks, and the search found no "
                    "input on which the property itself fails",
        }
        replay_path = write_replay(pid, payload)
        out_lines.append(f"VIOLATION property={pid} replay={replay_path} no-failing-input-found")
        violations = 1

    cov = {
        "obligations": a["obligations"], "discharged": a["discharged"],
        "checker_cmd": a["checker_cmd"],
        "trusted_base": [
            "Lean 4.33 kernel", "axioms: propext, Classical.choice, Quot.sound (audited per theorem)",
            "hand-written model validated by this run's correspondence only on the generated cases",
            "python harness + Lean JSON driver glue",
        ],
        "theorems": a["theorems"],
        "proof_problems": a["problems"],
        "build_s": a.get("build_s"),
        "evaluations": n_eval,
        "distinct_nontrivial": len(keys_nontrivial),
        "rule": check.rule,
        "samples": samples or [{"note": "no passing non-trivial sample recorded"}],
        "exhaustive": bool(getattr(check, "exhaustive", {}).get(tier, False)) and exhausted,
        "generator_exhausted": exhausted,
        "corpus_cases": len(corpus),
        "input_distribution": dict(sorted(hist.items())),
        "disagreements": len(disagreements),
        "property_failures": len(failures),
        "known_finding_hits": {k: 1 for k in seen_known},
        "search_cases": searched,
        "internal_errors": len(internal),
        "repo": str(REPO),
        "repo_state": repo_state(),
    }
    if "leanchecker_ok" in a:
        cov["leanchecker_ok"] = a["leanchecker_ok"]
    cov.update(report.get("extra", {}))
    write_evidence(pid, tier, seed, cov, list(check.assumptions), time.time() - t0, violations)

    for l in out_lines:
        print(l)
    if internal:
        for c, msg in internal[:5]:
            print(f"INTERNAL: {msg} case={short(c, 200)}", file=sys.stderr)
        if not violations:
            print(f"{pid}: internal errors in the machinery ({len(internal)}); no verdict", file=sys.stderr)
            return 2
    print(f"{pid} [{tier}] obligations {a['discharged']}/{a['obligations']} "
          f"cases={n_eval} nontrivial={len(keys_nontrivial)} disagreements={len(disagreements)} "
          f"failures={len(failures)} known={len(seen_known)} wall={time.time() - t0:.1f}s "
          + ("OK" if not violations else "VIOLATION"))
    return 1 if violations else 0


def replay(check, path):
    with open(path) as f:
        j = json.load(f)
    case = j.get("case")
    ob = leantools.obligations(check.pid)
    use_repo()
    if case is None:
        print(f"{path}: no concrete input in this replay ({j.get('kind')}); "
              f"broken: {short(j.get('broken_theorems'))} {short(j.get('broken_correspondence'))}")
        return 1
    ok, log, _ = leantools.lake_build(ob.get("driver_modules", []))
    recs = evaluate(check, [case], ob["driver"])
    r = recs[0]
    print("case:", short(case, 2000))
    print("impl:", short(r["impl"], 2000))
    print("model:", short(r["model"], 2000))
    print("correspondence:", "agree" if not r["disagree"] else "DISAGREE " + "; ".join(r["disagree"]))
    known = {f["signature"] for f in load_findings()
             if f.get("property") == check.pid and f.get("status") == "known"}
    new = [f for f in r["fail"] if f.signature not in known]
    old = [f for f in r["fail"] if f.signature in known]
    for f in old:
        print(f"KNOWN-FINDING: property={check.pid} {f.signature}: {f.what}")
    print("property:", "holds" if not new else "FAILS " + "; ".join(f.what for f in new))
    return 1 if new else 0
