"""C17 helpers: run the real command-line entry points in-process on small corpora built in
temporary directories under /tmp (always removed), and canonicalise what they produced.

Also the entry point of the worker-count runs: `python c17_cli.py <jobs.json> <out.json>` is
started by the harness as a subprocess under `timeout`, so a pool that hangs cannot hang the
check (spawned workers re-import this guarded module).
"""
import contextlib
import io
import json
import os
import shutil
import sys
import tempfile
import warnings


@contextlib.contextmanager
def tmpdir():
    d = tempfile.mkdtemp(prefix="c17_", dir="/tmp")
    try:
        yield d
    finally:
        shutil.rmtree(d, ignore_errors=True)


def cl():
    import pydrobert.torch.command_line as m
    return m


def call(name, argv):
    """Call a command function; returns its return value (None/0 = fine). Warnings silenced;
    stderr of the command (argparse, messages) swallowed."""
    fn = getattr(cl(), name)
    with warnings.catch_warnings():
        warnings.simplefilter("ignore")
        with contextlib.redirect_stderr(io.StringIO()):
            return fn([str(a) for a in argv])


def save(t, path):
    import torch
    torch.save(t, path)


def load(path):
    import torch
    return torch.load(path)


def long_tensor(x, shape=None):
    import torch
    t = torch.tensor(x, dtype=torch.long)
    if shape is not None:
        t = t.reshape(shape)
    return t


def list_dir_tensors(d):
    """{file name: nested list} for every entry of d."""
    out = {}
    for n in sorted(os.listdir(d)):
        out[n] = load(os.path.join(d, n)).tolist()
    return out


def name_args(prefix, suffix):
    a = []
    if prefix is not None:
        a += ["--file-prefix=" + prefix]
    if suffix is not None:
        a += ["--file-suffix=" + suffix]
    return a


def pool_args(workers, chunk):
    a = ["--num-workers", str(workers)]
    if chunk is not None:
        a += ["--mp-chunk-size", str(chunk)]
    return a


# ------------------------------------------------------------------ text files
def write_trn(path, corpus):
    with open(path, "w") as f:
        for utt, toks in corpus:
            f.write("".join(t + " " for t in toks) + "(" + utt + ")\n")


def parse_trn(path):
    out = []
    with open(path) as f:
        for line in f:
            line = line.rstrip("\n")
            if not line.strip():
                continue
            i = line.rindex("(")
            out.append([line[i + 1:line.rindex(")")], line[:i].split()])
    return out


def write_map(path, pairs, id_first):
    with open(path, "w") as f:
        for tok, i in pairs:
            f.write(f"{i} {tok}\n" if id_first else f"{tok} {i}\n")


def parse_ctm(path):
    """-> list of (wfn, chan, start, dur, token) in file order."""
    out = []
    with open(path) as f:
        for line in f:
            ls = line.split()
            if ls:
                out.append((ls[0], ls[1], float(ls[2]), float(ls[3]), ls[4]))
    return out


# ------------------------------------------------------------------ worker-count jobs
def file_bytes(path):
    with open(path, "rb") as f:
        return f.read()


def snapshot(d):
    """Comparable content of an output directory tree: tensors as (dtype, shape, list),
    other files as text."""
    import torch
    out = {}
    for root, _, files in os.walk(d):
        for n in files:
            p = os.path.join(root, n)
            rel = os.path.relpath(p, d)
            try:
                t = torch.load(p)
                if isinstance(t, torch.Tensor):
                    out[rel] = ["tensor", str(t.dtype), list(t.shape), t.tolist()]
                else:
                    out[rel] = ["obj", json.loads(json.dumps(t, default=lambda x: x.tolist()))]
            except Exception:
                with open(p, "r", errors="replace") as f:
                    out[rel] = ["text", f.read()]
    return out


def build_job_inputs(job, d):
    """Materialise the corpus of a worker job under d; return {placeholder: path}."""
    paths = {}
    for name, spec in job["inputs"].items():
        p = os.path.join(d, name)
        if spec["type"] == "tensor_dir":
            os.makedirs(p)
            for sub, files in spec["files"].items():
                sd = os.path.join(p, sub) if sub else p
                os.makedirs(sd, exist_ok=True)
                for fn, (data, shape, dtype) in files.items():
                    import torch
                    t = torch.tensor(data, dtype=getattr(torch, dtype))
                    if shape is not None:
                        t = t.reshape(shape)
                    save(t, os.path.join(sd, fn))
        elif spec["type"] == "text":
            with open(p, "w") as f:
                f.write(spec["text"])
        elif spec["type"] == "dir":
            os.makedirs(p)
            for fn, text in spec["files"].items():
                with open(os.path.join(p, fn), "w") as f:
                    f.write(text)
        paths[name] = p
    return paths


@contextlib.contextmanager
def start_method(start):
    """`start == "fork"`: the pool of `_multiprocessor_pattern_generator` asks
    `torch.multiprocessing.get_context("spawn")` — hand it the `fork` context instead (a worker is
    then ready in milliseconds; nothing else of the pool logic is touched). `"spawn"`: as is."""
    if start != "fork":
        yield
        return
    import torch.multiprocessing as tmp
    orig = tmp.get_context
    tmp.get_context = lambda method=None: orig("fork")
    try:
        yield
    finally:
        tmp.get_context = orig


def run_job(job):
    """Run job["steps"] (list of [function name, argv with {placeholders}, flags]) for one
    (workers, chunk, start method) setting; return what the commands returned and a snapshot of
    the outputs. An exception ends the pipeline; its class is part of the result (compared),
    its message is kept aside (not compared: it may contain temporary paths)."""
    with tmpdir() as d:
        paths = build_job_inputs(job, d)
        for o in job["outputs"]:
            paths[o] = os.path.join(d, o)
        res = {"returns": [], "messages": []}
        for fn, argv, flags in job["steps"]:
            argv = [a.format(**paths) for a in argv]
            if "w" in flags:
                argv += ["--num-workers", str(job["workers"])]
            if "c" in flags and job.get("chunk") is not None:
                argv += ["--mp-chunk-size", str(job["chunk"])]
            try:
                with start_method(job.get("start", "spawn")):
                    res["returns"].append(call(fn, argv))
            except Exception as e:  # noqa
                res["returns"].append("raise:" + type(e).__name__)
                res["messages"].append(f"{fn}: {type(e).__name__}: {str(e)[:200]}".replace(d, "<tmp>"))
                break
        snap = {}
        for o in job["outputs"]:
            p = paths[o]
            if os.path.isdir(p):
                snap[o] = snapshot(p)
            elif os.path.exists(p):
                snap[o] = snapshot_file(p)
            else:
                snap[o] = None
        res["outputs"] = snap
        return res


def diff_runs(steps, base, run, ref="serial run"):
    """Where a run (with workers) differs from the reference run `base` (the serial run): command by command
    (return value / exception class), then output by output, file by file. -> list of strings."""
    out = []
    for i, (a, b) in enumerate(zip(base["returns"], run["returns"])):
        if a != b:
            out.append(f"step {i + 1} ({steps[i][0]}) returned {b!r}, {ref} {a!r}"
                       + (f" [{'; '.join(run.get('messages', []))}]" if run.get("messages") else ""))
    if len(base["returns"]) != len(run["returns"]) and not out:
        out.append(f"{len(run['returns'])} steps ran, {ref} {len(base['returns'])}")
    for o in sorted(set(base["outputs"]) | set(run["outputs"])):
        a, b = base["outputs"].get(o), run["outputs"].get(o)
        if a == b:
            continue
        if not (isinstance(a, dict) and isinstance(b, dict)):
            out.append(f"output {o}: {short_repr(b)}, {ref} {short_repr(a)}")
            continue
        for f in sorted(set(a) | set(b)):
            if a.get(f) != b.get(f):
                out.append(f"output {o}/{f}: {short_repr(b.get(f))}, {ref} {short_repr(a.get(f))}")
    return out


def short_repr(x, n=120):
    if x is None:
        return "missing"
    s = json.dumps(x)
    return s if len(s) <= n else s[:n] + "..."


def snapshot_file(p):
    import torch
    try:
        t = torch.load(p)
        return ["obj", json.loads(json.dumps(t, default=lambda x: x.tolist()))]
    except Exception:
        with open(p, "r", errors="replace") as f:
            return ["text", f.read()]


def run_chain(job):
    """job["chain"]: a list of step lists, run ONE AFTER THE OTHER IN THIS PROCESS (each on a freshly built
    copy of the inputs, in its own temporary directory) -> {"chain": [result of each]}. Whatever a command
    leaves behind in the process (module-level caches, patched defaults, ...) is there for the next one."""
    return {"chain": [run_job(dict(job, steps=steps)) for steps in job["chain"]]}


def run_isolated(job):
    """Run the job in a forked child of THIS process. The parent has imported torch and the command-line
    module but never calls a command itself (`main` runs a job list of isolated jobs only), so the child
    starts from the state of a fresh interpreter; nothing it does reaches the next job."""
    fd, path = tempfile.mkstemp(prefix="c17i_", suffix=".json", dir="/tmp")
    os.close(fd)
    try:
        pid = os.fork()
        if pid == 0:
            code = 1
            try:
                res = run_chain(job) if "chain" in job else run_job(job)
                with open(path, "w") as f:
                    json.dump(res, f)
                code = 0
            except BaseException:  # noqa
                import traceback
                traceback.print_exc()
            finally:
                sys.stderr.flush()
                os._exit(code)
        _, status = os.waitpid(pid, 0)
        if status != 0:
            raise RuntimeError(f"isolated job ended with status {status}")
        with open(path) as f:
            return json.load(f)
    finally:
        with contextlib.suppress(OSError):
            os.remove(path)


def main(argv):
    repo = os.environ.get("VERIF_REPO", "/repo")
    sys.path.insert(0, os.path.join(repo, "src"))
    import torch
    torch.set_num_threads(1)   # no intra-op thread pool in a process that is going to fork
    with open(argv[1]) as f:
        jobs = json.load(f)
    if any(j.get("isolate") for j in jobs):
        if not all(j.get("isolate") for j in jobs):
            raise RuntimeError("isolated jobs must not share a process with jobs run in the parent")
        cl()
    out = []
    for job in jobs:
        out.append(run_isolated(job) if job.get("isolate") else run_job(job))
    with open(argv[2], "w") as f:
        json.dump(out, f)
    return 0


if __name__ == "__main__":
    sys.exit(main(sys.argv))
