"""C18 — the size-triggered stream (kind ``big``).

Realistic code changes add a second code path that is only taken above a size threshold ("the (T, T)
matrix gets too big: run the recurrence instead", "chunk the convolution for long inputs", "flush the
accumulators every 1024 calls").  The ordinary streams of `c18.py` stay below every such threshold
(T <= 40, pools of <= 6 tensors), so this stream exercises EVERY function the property covers with a
few LONG inputs per run, at and around the usual thresholds::

    SIZES = 255, 256, 257, 1023, 1024, 1025, 2047, 2048, 2049, 4097, 10000

* ``return``      time_distributed_return / TimeDistributedReturn: T in SIZES (both layouts), and a very
                  wide batch with a short horizon.
* ``deltas``      feat_deltas / FeatureDeltas: T in SIZES along the time axis, wide windows (width up to
                  1024), high orders (up to 12), very many rows.
* ``mvn``         MeanVarianceNormalization: many frames in one call / cut into a few calls, many
                  accumulate calls (SIZES calls), a feature axis of SIZES coefficients.
* ``cli``         compute-mvn-stats-for-torch-feat-data-dir on a long utterance (SIZES frames) next to short
                  ones, and on a directory of very many short files.

The inputs are regenerated from a seed (the case holds sizes + seed only).  The Lean driver is
interpreted and quadratic in T (deltas: 1 s at T = 257, 26 s at T = 1025), so the oracle of this stream
is the defining formula evaluated in pure python / exact integer arithmetic (`*_oracle` below):
the recurrence R_t = r_t + gamma R_(t+1) on integers scaled by the denominator of gamma; the recursive
regression formula on the padded input with integer numerators over (sum w^2)^u; counts / sums / sums
of squares as python ints.  For sizes <= 257 the case is ALSO sent to the Lean driver and the python
oracle must equal the Lean spec (exactly) -- that ties the oracle to the spec the theorems are about.

FIRST and LAST time step (frame) are compared and reported explicitly: off-by-one loops of a
recurrence / chunking path break exactly there.
"""
import contextlib
import io
import os
import random
import tempfile
from fractions import Fraction

from common.framework import frac_str

SIZES = (255, 256, 257, 1023, 1024, 1025, 2047, 2048, 2049, 4097, 10000)
LEAN_MAX = 257
PAD_MODES = ("replicate", "constant", "reflect", "circular")
LAYOUTS = ("contig", "contig", "transposed", "strided")


def prod(shape):
    p = 1
    for s in shape:
        p *= s
    return p


def relayout(t, layout):
    if layout == "transposed" and t.dim() >= 2:
        perm = list(reversed(range(t.dim())))
        return t.permute(perm).contiguous().permute(perm)
    if layout == "strided" and t.dim() >= 1:
        big = t.new_full(list(t.shape[:-1]) + [2 * t.size(-1) + 1], 77.0)
        big[..., 1::2] = t
        return big[..., 1::2]
    return t


def ints(seed, n, lo, hi):
    rr = random.Random(seed)
    return [rr.randrange(lo, hi + 1) for _ in range(n)]


def tdtype(case):
    import torch
    return torch.float32 if case["dtype"] == "float32" else torch.float64


# =========================================================================== generators
def gen_big(rng, big):
    yield from gen_big_return(rng, big)
    yield from gen_big_deltas(rng, big)
    yield from gen_big_mvn(rng, big)
    yield from gen_big_cli(rng, big)


def gen_big_return(rng, big):
    # |gamma| <= 1.001: every R_t stays far inside the float range (1.001^10000 = 2.2e4); gamma = +-1 exact
    gammas = ["1/2", "1", "0.95", "-1", "-1/2", "0.99", "1.001", "1/4", "0.9", "-0.97"]
    simple = ["1/2", "1", "-1", "-1/2", "1/4", "-3/4"]
    k = rng.randrange(len(gammas))
    for T in SIZES:
        for bf in (False, True):
            for rep in range(2 if big and T <= 4097 else 1):
                g = gammas[k % len(gammas)]
                k += 3
                if T <= LEAN_MAX:
                    g = simple[(k // 3) % len(simple)]       # also run by the Lean driver: small denominators
                yield {"kind": "big", "what": "return", "T": T, "N": rng.choice([1, 2, 3]),
                       "gamma": g if "/" in g or "." not in g else frac_str(float(g)), "batch_first": bf,
                       "dtype": "float32" if T > 4097 else rng.choice(["float32", "float64"]),
                       "layout": rng.choice(LAYOUTS) if T <= 4097 else "contig",
                       # beyond 2049 steps one entry route per case (a (T, T) matrix per call)
                       "route": "all" if T <= 2049 else rng.choice(["functional", "module", "kw"]),
                       "seed": rng.randrange(1 << 30)}
    # gamma = 0 on a long horizon (the rewards themselves), and very wide batches on a short horizon
    yield {"kind": "big", "what": "return", "T": rng.choice(SIZES[3:]), "N": 2, "gamma": "0",
           "batch_first": rng.random() < 0.5, "dtype": "float32", "layout": "contig", "route": "all",
           "seed": rng.randrange(1 << 30)}
    for N in rng.sample(SIZES, 4 if big else 2) + [10000]:
        yield {"kind": "big", "what": "return", "T": rng.randrange(2, 9), "N": N,
               "gamma": rng.choice(["1/2", "1", "-1/2", "2"]), "batch_first": rng.random() < 0.5,
               "dtype": rng.choice(["float32", "float64"]), "layout": rng.choice(LAYOUTS), "route": "all",
               "seed": rng.randrange(1 << 30)}


def delta_layouts(D):
    for td in range(D):
        for cat in (True, False):
            for dm in range(D if cat else D + 1):
                yield td, dm, cat


def big_delta_case(rng, shape, td, dm, cat, order, width, mode, neg=False):
    D = len(shape)
    return {"kind": "big", "what": "deltas", "shape": list(shape),
            "time_dim": td - D if neg else td, "dim": dm - (D if cat else D + 1) if neg else dm,
            "concatenate": cat, "order": order, "width": width, "pad_mode": mode,
            "value": rng.choice([0, 1, -3, 0.5]) if mode == "constant" else 0,
            "dtype": rng.choice(["float32", "float32", "float64"]), "layout": rng.choice(LAYOUTS),
            "seed": rng.randrange(1 << 30)}


def gen_big_deltas(rng, big):
    k = rng.randrange(4)
    # (a) long time axis
    for T in SIZES:
        for rep in range(2 if big else 1):
            # (the sizes up to 257 are also sent to the interpreted Lean driver: at most 2 rows there)
            D = rng.choice([1, 2, 2, 3] if T > LEAN_MAX else [1, 2])
            td, dm, cat = rng.choice(list(delta_layouts(D)))
            shape = [rng.choice([1, 2, 3] if T > LEAN_MAX else [1, 2]) for _ in range(D)]
            shape[td] = T
            order, width = rng.choice([(1, 1), (1, 2), (2, 1), (2, 2), (2, 2), (3, 1), (1, 3), (3, 2)])
            yield big_delta_case(rng, shape, td, dm, cat, order, width, PAD_MODES[k % 4], neg=rng.random() < 0.3)
            k += 1
    # (b) wide windows (filter of 1 + 2 * width * order taps), T just above / far below the padding
    wide = [(1, 16), (1, 64), (1, 255), (1, 256), (1, 257), (1, 1024), (2, 128), (2, 512), (3, 85)]
    for order, width in (wide if big else rng.sample(wide[:2], 1) + rng.sample(wide[2:5], 2)
                         + rng.sample(wide[5:], 2)):
        mode = PAD_MODES[k % 4]
        k += 1
        pad = order * width
        T = pad + rng.choice([1, 2, 5]) if mode in ("reflect", "circular") or rng.random() < 0.5 \
            else rng.choice([1, 3, 17])
        D = rng.choice([1, 2])
        td, dm, cat = rng.choice(list(delta_layouts(D)))
        shape = [rng.choice([1, 2]) for _ in range(D)]
        shape[td] = T
        yield big_delta_case(rng, shape, td, dm, cat, order, width, mode)
    # (c) high orders (the composite filter is an order-fold convolution)
    for order, width in ((6, 1), (8, 2), (10, 1), (12, 3)) if big else rng.sample([(6, 1), (8, 2), (10, 1), (12, 3)], 2):
        mode = PAD_MODES[k % 4]
        k += 1
        D = rng.choice([1, 2])
        td, dm, cat = rng.choice(list(delta_layouts(D)))
        shape = [rng.choice([1, 2]) for _ in range(D)]
        shape[td] = order * width + rng.choice([1, 4, 30])
        yield big_delta_case(rng, shape, td, dm, cat, order, width, mode)
    # (d) very many rows (the feature axes), short time axis
    for rows in rng.sample(SIZES, 4 if big else 2):
        D = rng.choice([2, 3])
        td, dm, cat = rng.choice(list(delta_layouts(D)))
        shape = [rng.choice([1, 2]) for _ in range(D)]
        shape[rng.choice([a for a in range(D) if a != td])] = rows
        order, width = rng.choice([(1, 1), (2, 2), (2, 1), (1, 2)])
        shape[td] = order * width + rng.choice([1, 2, 4])
        yield big_delta_case(rng, shape, td, dm, cat, order, width, PAD_MODES[k % 4])
        k += 1


def gen_big_mvn(rng, big):
    k = 0
    for mode in ("frames", "calls", "dims"):
        for size in SIZES:
            rank = rng.choice([2, 2, 3])
            dim = rng.randrange(-rank, rank)
            d = dim % rank
            cat = rng.choice([a for a in range(rank) if a != d])
            shape = [rng.choice([1, 2]) for _ in range(rank)]
            if mode == "dims":
                shape[d] = size
                shape[cat] = rng.randrange(2, 6)
                calls = rng.choice([1, 2])
            else:
                shape[d] = rng.choice([1, 2, 3])
                per = rng.choice([1, 1, 2]) if mode == "calls" else 1
                shape[cat] = size * per
                calls = size if mode == "calls" else rng.choice([1, 1, 2, 3, 7])
            yield {"kind": "big", "what": "mvn", "mode": mode, "size": size, "shape": shape, "dim": dim,
                   "cat_axis": cat, "calls": calls, "bessel": bool(k & 1), "shuffle": rng.random() < 0.5,
                   "dtype": rng.choice(["float32", "float64"]), "layout": rng.choice(LAYOUTS),
                   "seed": rng.randrange(1 << 30)}
            k += 1


def gen_big_cli(rng, big):
    longs = SIZES if big else (SIZES[2], SIZES[5], SIZES[8], SIZES[10], rng.choice(SIZES))
    for j, T in enumerate(longs):
        X = rng.choice([1, 2, 3])
        dim = rng.choice([-1, -1, 0, 1, -2])
        nshort = rng.choice([0, 1, 2])
        frames = [T] + [rng.randrange(2, 5) for _ in range(nshort)]
        rng.shuffle(frames)
        yield {"kind": "big", "what": "cli", "mode": "long", "size": T, "X": X, "dim": dim, "frames": frames,
               "groups": rng.choice([None, 2]) if len(frames) > 1 else None, "bessel": bool(j & 1),
               "dtype": rng.choice(["float32", "float64"]), "seed": rng.randrange(1 << 30)}
    # very many short files
    for nfiles in ((257, 1025) if big else (257,)):
        yield {"kind": "big", "what": "cli", "mode": "many", "size": nfiles, "X": rng.choice([1, 2]), "dim": -1,
               "frames": [rng.randrange(1, 3) for _ in range(nfiles)], "groups": rng.choice([None, 3]),
               "bessel": rng.random() < 0.5, "dtype": "float32", "seed": rng.randrange(1 << 30)}


# =========================================================================== oracles (pure python)
def return_oracle(seqs, gamma):
    """R_t = r_t + gamma R_(t+1), R_T = 0, for each reward sequence (python ints).  gamma = p/q with a small
    q: exact integers S_t = R_t q^(T-1-t) (S_t = r_t q^(T-1-t) + p S_(t+1)), one correctly rounded int / int
    division per entry; any other gamma: the recurrence in double precision (relative error <= T * 2^-53).
    Also the same recurrence on |r|, |gamma| (the scale float rounding is measured against)."""
    q = Fraction(gamma)
    out, scale = [], 1.0
    for seq in seqs:
        T = len(seq)
        res = [0.0] * T
        if q.denominator <= 4:
            p, d, S, dk = q.numerator, q.denominator, 0, 1
            for t in range(T - 1, -1, -1):
                S = seq[t] * dk + p * S
                res[t] = S / dk
                dk *= d
        else:
            g, acc = float(q), 0.0
            for t in range(T - 1, -1, -1):
                acc = seq[t] + g * acc
                res[t] = acc
        ga, acc = abs(float(q)), 0.0
        for t in range(T - 1, -1, -1):
            acc = abs(seq[t]) + ga * acc
            scale = max(scale, acc)
        out.append(res)
    return out, scale


def pad_index(T, P, mode):
    """Index into the T frames for every position of the input extended by P frames on both sides
    (None: the constant pad value)."""
    idx = []
    for i in range(-P, T + P):
        if 0 <= i < T:
            idx.append(i)
        elif mode == "replicate":
            idx.append(0 if i < 0 else T - 1)
        elif mode == "reflect":
            idx.append(-i if i < 0 else 2 * (T - 1) - i)
        elif mode == "circular":
            idx.append(i % T)
        else:
            idx.append(None)
    return idx


def deltas_oracle(x, td, order, width, mode, value):
    """The recursive regression formula on the padded input.  x: numpy int64 array; returns the list of
    the order + 1 delta arrays (float64, same shape as x) -- delta_0 = x,
    delta_u[t] = sum_{w=-W..W} w * delta_(u-1)[t + w] / sum_w w^2, evaluated on integer numerators:
    num_u[t] = sum_w w num_(u-1)[t + w], delta_u = num_u / (v * (sum_w w^2)^u), v = denominator of the
    pad value."""
    import numpy as np
    T = x.shape[td]
    P = order * width
    v = Fraction(value).limit_denominator(1 << 20)
    vs = v.denominator
    xm = np.moveaxis(x, td, -1) * vs
    bound = (8 * vs + abs(v.numerator)) * max(width * (width + 1), 1) ** order
    if bound >= 1 << 62:
        xm = xm.astype(object)
    idx = pad_index(T, P, mode)
    cur = xm[..., np.array([0 if i is None else i for i in idx], dtype=np.int64)]
    if any(i is None for i in idx):
        cur[..., np.array([i is None for i in idx])] = v.numerator       # the constant pad value (times vs)
    denom = sum(w * w for w in range(-width, width + 1))
    outs = []
    for u in range(order + 1):
        if u:
            L = cur.shape[-1] - 2 * width
            nxt = np.zeros(cur.shape[:-1] + (L,), dtype=cur.dtype)
            for w in range(-width, width + 1):
                if w:
                    nxt = nxt + w * cur[..., width + w: width + w + L]
            cur = nxt
        off = P - u * width
        centre = cur[..., off: off + T]
        outs.append(np.moveaxis(centre.astype(np.float64) / float(vs * denom ** u), -1, td))
    return outs


def lay_out(arrs, dim, concatenate):
    """`laid out along the requested dimension by stacking or concatenation`."""
    import numpy as np
    return np.concatenate(arrs, dim) if concatenate else np.stack(arrs, dim)


def stats_oracle(cols, bessel):
    """cols: per coefficient the list of its values (python ints).  -> count, sums, sums of squares (ints),
    mean, variance (Fractions; None when too few frames)."""
    n = len(cols[0]) if cols else 0
    s = [sum(c) for c in cols]
    ss = [sum(a * a for a in c) for c in cols]
    if n < (2 if bessel else 1):
        return n, s, ss, None, None
    mean = [Fraction(a, n) for a in s]
    var = [Fraction(b, n) - m * m for b, m in zip(ss, mean)]
    if bessel:
        var = [w * Fraction(n, n - 1) for w in var]
    return n, s, ss, mean, var


# =========================================================================== implementation runs
def _dev(got, want, rt, at, sel=None):
    """Entries of `got` (torch double) further than at + rt |want| from `want` (or not finite).
    -> (number, first three as (flat index, got, want))."""
    import torch
    bad = ~((got - want).abs() <= at + rt * want.abs())
    if sel is not None:
        bad = bad & sel
    n = int(bad.sum())
    first = []
    if n:
        for i in bad.flatten().nonzero().flatten()[:3].tolist():
            first.append([i, float(got.flatten()[i]), float(want.flatten()[i])])
    return n, first


def impl_big(case):
    return {"return": impl_return, "deltas": impl_deltas, "mvn": impl_mvn, "cli": impl_cli}[case["what"]](case)


def return_rewards(case):
    """-> list over the N sequences of the T rewards."""
    T, N = case["T"], case["N"]
    flat = ints(case["seed"], T * N, -4, 4)
    return [flat[n * T:(n + 1) * T] for n in range(N)]


def return_tol(case, scale):
    g = Fraction(case["gamma"])
    if g in (0, 1, -1) and 4 * case["T"] < (1 << 24):
        return 0.0, 0.0, "exact"
    if g.denominator <= 4 and abs(g) <= 2 and case["T"] <= 8:
        return 0.0, 0.0, "exact"          # a short horizon: every partial sum is a small dyadic number
    # a float dot product of T terms: rounding grows like sqrt(T) * eps * (sum of the |terms|)
    if case["dtype"] == "float32":
        return 1e-4, (1e-5 + 2e-7 * case["T"] ** 0.5) * scale, "tolerance"
    return 1e-9, (1e-10 + 1e-15 * case["T"] ** 0.5) * scale, "tolerance"


def impl_return(case):
    import torch
    from pydrobert.torch.functional import time_distributed_return
    from pydrobert.torch.modules import TimeDistributedReturn
    seqs = return_rewards(case)
    T, N, bf = case["T"], case["N"], case["batch_first"]
    r = torch.tensor(seqs, dtype=tdtype(case))                  # (N, T)
    if not bf:
        r = r.t().contiguous()
    r = relayout(r, case.get("layout"))
    keep = r.clone()
    g = float(Fraction(case["gamma"]))
    routes = {"functional": lambda: time_distributed_return(r, g, bf),
              "module": lambda: TimeDistributedReturn(g, bf)(r),
              "kw": lambda: time_distributed_return(r, g) if not bf else
              time_distributed_return(r, gamma=g, batch_first=True)}
    names = list(routes) if case.get("route", "all") == "all" else [case["route"]]
    R = routes[names[0]]()
    differ = []
    for nm in names[1:]:
        R2 = routes[nm]()
        if R2.shape != R.shape or R2.dtype != R.dtype or not torch.equal(
                torch.nan_to_num(R2, nan=12345.0), torch.nan_to_num(R, nan=12345.0)):
            differ.append(nm)
    obs = {"route": names[0], "routes_differ": differ, "shape_ok": list(R.shape) == list(r.shape),
           "dtype_ok": R.dtype == r.dtype, "input_kept": bool(torch.equal(keep, r))}
    if not obs["shape_ok"]:
        obs["shape"] = list(R.shape)
        return obs
    want, scale = return_oracle(seqs, case["gamma"])
    W = torch.tensor(want, dtype=torch.float64)                 # (N, T)
    G = (R if bf else R.t()).double()
    rt, at, stream = return_tol(case, scale)
    obs.update(stream=stream, scale=scale)
    tsel = torch.zeros(N, T, dtype=torch.bool)
    for name, t in (("first", 0), ("last", T - 1)):
        tsel.zero_()
        tsel[:, t] = True
        n, first = _dev(G, W, rt, at, tsel)
        obs[name] = {"t": t, "bad": n, "got": G[:, t].tolist()[:3], "want": W[:, t].tolist()[:3]}
    n, first = _dev(G, W, rt, at)
    obs["bad"] = n
    obs["bad_first3"] = [[i // T, i % T, a, b] for i, a, b in first]      # (sequence, t, got, want)
    diff = (G - W).abs()
    obs["margin"] = float((diff / (at + rt * W.abs() + 1e-300)).max()) if at or rt else 0.0
    if lean_linked(case):
        obs["full"] = {"R": [[frac_str(v) for v in row] for row in G.tolist()],
                       "oracle": [[frac_str(v) for v in row] for row in want]}
    return obs


def deltas_input(case):
    import numpy as np
    shape = case["shape"]
    return np.array(ints(case["seed"], prod(shape), -8, 8), dtype=np.int64).reshape(shape)


def deltas_tol(case):
    """Float rounding of one convolution with the composite filter of order u: relative to
    (1 + max |x|) * (3 / (2 W + 1))^u (the L1 norm of the regression kernel is 3 / (2 W + 1)); the
    filters are built in float32 whatever the input dtype."""
    taps = 1 + 2 * case["width"] * case["order"]
    return (2e-5 + 2e-7 * taps) * (1 + max(8, abs(float(case["value"]))))


def impl_deltas(case):
    import numpy as np
    import torch
    from pydrobert.torch.functional import feat_deltas
    from pydrobert.torch.modules import FeatureDeltas
    xi = deltas_input(case)
    D = xi.ndim
    td = case["time_dim"] % D
    x = relayout(torch.tensor(xi, dtype=tdtype(case)), case.get("layout"))
    keep = x.clone()
    args = (case["dim"], case["time_dim"], case["concatenate"], case["order"], case["width"],
            case["pad_mode"], float(case["value"]))
    defaults = {"dim": -1, "time_dim": -2, "concatenate": True, "order": 2, "width": 2,
                "pad_mode": "replicate", "value": 0.0}
    kw = {k: v for k, v in zip(defaults, args) if v != defaults[k]}
    y = feat_deltas(x, *args)
    differ = []
    for nm, f in (("module", lambda: FeatureDeltas(*args).to(x.dtype)(x)),
                  ("functional_kw", lambda: feat_deltas(x, **kw)),
                  ("module_kw", lambda: FeatureDeltas(**kw).to(x.dtype)(x))):
        y2 = f()
        if y2.shape != y.shape or y2.dtype != y.dtype or not torch.equal(y2, y):
            differ.append(nm)
    outs = deltas_oracle(xi, td, case["order"], case["width"], case["pad_mode"], case["value"])
    Dn = D if case["concatenate"] else D + 1
    dim = case["dim"] % Dn
    want = lay_out(outs, dim, case["concatenate"])
    # the time step and the delta order of every entry of the result, laid out the same way
    T = xi.shape[td]
    tgrid = np.broadcast_to(np.arange(T).reshape([T if a == td else 1 for a in range(D)]), xi.shape)
    tix = torch.tensor(lay_out([tgrid] * (case["order"] + 1), dim, case["concatenate"]))
    uix = torch.tensor(lay_out([np.full(xi.shape, u) for u in range(case["order"] + 1)], dim, case["concatenate"]))
    obs = {"routes_differ": differ, "dtype_ok": y.dtype == x.dtype, "input_kept": bool(torch.equal(keep, x)),
           "shape": list(y.shape), "want_shape": list(want.shape)}
    if obs["shape"] != obs["want_shape"]:
        return obs
    G, W = y.double(), torch.tensor(want, dtype=torch.float64)
    base = deltas_tol(case)
    l1 = 3.0 / (2 * case["width"] + 1)
    at = base * torch.pow(torch.tensor(l1, dtype=torch.float64), uix.double())
    exact = case["width"] == 1 and case["order"] <= 8 and float(case["value"]) == int(case["value"])
    if exact:
        at = at * 0           # kernel (-1/2, 0, 1/2): dyadic, every delta exact in float32
    obs["stream"] = "exact" if exact else "tolerance"
    for name, t in (("first", 0), ("last", T - 1)):
        n, first = _dev(G, W, 0.0, at, tix == t)
        obs[name] = {"t": t, "bad": n, "bad_first3": first}
    n, first = _dev(G, W, 0.0, at)
    obs["bad"] = n
    obs["bad_first3"] = [[i, int(tix.flatten()[i]), int(uix.flatten()[i]), a, b] for i, a, b in first]
    obs["margin"] = 0.0 if exact else float(((G - W).abs() / at).max()) if G.numel() else 0.0
    if lean_linked(case):
        obs["full"] = {"oracle": [frac_str(float(v)) for v in want.flatten().tolist()]}
    return obs


def mvn_chunks(case):
    """-> x (torch, integer valued, the case's dtype), the chunks given to accumulate (in call order)."""
    import torch
    shape = case["shape"]
    x = torch.tensor(ints(case["seed"], prod(shape), -8, 8), dtype=tdtype(case)).view(shape)
    cat, L, calls = case["cat_axis"], shape[case["cat_axis"]], case["calls"]
    rr = random.Random(case["seed"] ^ 0x5A5A)
    if case["mode"] == "calls":
        per = L // calls
        chunks = list(torch.split(x, per, cat))
    elif calls <= 1 or L < calls:
        chunks = [x]
    else:
        cuts = sorted(rr.sample(range(1, L), calls - 1))
        sizes = [b - a for a, b in zip([0] + cuts, cuts + [L])]
        chunks = list(torch.split(x, sizes, cat))
    if case.get("shuffle"):
        rr.shuffle(chunks)
    lay = case.get("layout")
    if case["mode"] != "calls":
        chunks = [relayout(c, lay) for c in chunks]
    return x, chunks


def mvn_columns(x, dim):
    """Per coefficient the python ints of all frames."""
    return [[int(v) for v in row] for row in x.movedim(dim, 0).flatten(1).tolist()]


def impl_mvn(case):
    import math
    import torch
    from pydrobert.torch import config
    from pydrobert.torch.functional import mean_var_norm
    from pydrobert.torch.modules import MeanVarianceNormalization
    x, chunks = mvn_chunks(case)
    dim, bessel = case["dim"], case["bessel"]
    mvn = MeanVarianceNormalization(dim) if dim != -1 else MeanVarianceNormalization()
    keeps = [c.clone() for c in chunks[:4]]
    for c in chunks:
        mvn.accumulate(c)
    cols = mvn_columns(x, dim)
    n, s, ss, mean, var = stats_oracle(cols, bessel)
    obs = {"calls": len(chunks), "frames": n,
           "count_ok": float(mvn.count) == n, "count": float(mvn.count),
           "sum_bad": [i for i, (a, b) in enumerate(zip(mvn.sum.tolist(), s)) if a != b][:3],
           "sumsq_bad": [i for i, (a, b) in enumerate(zip(mvn.sumsq.tolist(), ss)) if a != b][:3],
           "len_ok": mvn.sum.numel() == len(s) and mvn.sumsq.numel() == len(ss),
           "buffers_double": all(b.dtype == torch.float64 for b in (mvn.count, mvn.sum, mvn.sumsq)),
           "input_kept": all(bool(torch.equal(k, c)) for k, c in zip(keeps, chunks))}
    mvn.store(delete_stats=False, bessel=bessel)
    M = torch.tensor([float(m) for m in mean], dtype=torch.float64)
    V = torch.tensor([float(v) for v in var], dtype=torch.float64)
    gm, gs = mvn.mean.double(), mvn.std.double()
    obs["mean_bad"] = _dev(gm, M, 1e-12, 1e-12)[1]
    obs["var_bad"] = _dev(gs * gs, V, 1e-10, 1e-10)[1]
    obs["stats_dtype_ok"] = mvn.mean.numel() == len(s) and mvn.std.numel() == len(s)
    # forward: stored statistics (module itself, functional), the input's own statistics
    eps = float(config.TINY)
    xin = relayout(x, case.get("layout"))
    rt, at = (2e-4, 2e-5) if case["dtype"] == "float32" else (1e-9, 1e-10)
    rank = x.dim()
    d, cat = dim % rank, case["cat_axis"]
    view = [len(s) if a == d else 1 for a in range(rank)]
    L = x.size(cat)
    fsel = {"first": 0, "last": L - 1}
    pos = torch.arange(L).view([L if a == cat else 1 for a in range(rank)]).expand(x.shape)
    _, _, _, omean, ovar = stats_oracle(cols, False)            # the input's own (biased) statistics
    fw = {}
    for name, f, mu, va in (
            ("stored", lambda: mvn(xin), mean, var),
            ("stored_functional", lambda: mean_var_norm(xin, dim, mvn.mean, mvn.std), mean, var),
            ("own", lambda: mean_var_norm(xin, **({} if dim == -1 else {"dim": dim})), omean, ovar),
            ("own_module", lambda: (MeanVarianceNormalization(dim) if dim != -1 else
                                    MeanVarianceNormalization())(xin), omean, ovar)):
        y = f()
        sd = torch.tensor([max(math.sqrt(v), eps) for v in va], dtype=torch.float64).view(view)
        mm = torch.tensor([float(m) for m in mu], dtype=torch.float64).view(view)
        W = (x.double() - mm) / sd
        # a constant coefficient: (x - mean) / eps is 0 / eps = 0 exactly; float noise in the mean is not
        # specified there -> compare only coefficients with a real deviation
        live = torch.tensor([v > 0 for v in va]).view(view).expand(x.shape)
        G = y.double()
        o = {"shape_ok": y.shape == x.shape and y.dtype == x.dtype}
        if o["shape_ok"]:
            for nm, p in fsel.items():
                k, first = _dev(G, W, rt, at, live & (pos == p))
                o[nm] = {"frame": p, "bad": k, "bad_first3": first}
            k, first = _dev(G, W, rt, at, live)
            o["bad"], o["bad_first3"] = k, first
            yc = G.movedim(d, 0).flatten(1)
            o["m1"] = yc.mean(1).tolist()[:8]
            o["m2"] = (yc * yc).mean(1).tolist()[:8]
            o["live"] = [v > 0 for v in va][:8]
        fw[name] = o
    obs["forward"] = fw
    obs["xin_kept"] = bool(torch.equal(xin, relayout(x, case.get("layout"))))
    return obs


def cli_files(case):
    """-> list of (id, shape, flat ints, gid or None)."""
    rr = random.Random(case["seed"])
    X, dim = case["X"], case["dim"]
    out = []
    for i, T in enumerate(case["frames"]):
        shape = [T, X] if dim % 2 == 1 else [X, T]
        data = [rr.randrange(-8, 9) for _ in range(T * X)]
        gid = None if case["groups"] is None else f"g{i % case['groups']}"
        out.append((f"utt{i:05d}", shape, data, gid))
    return out


def impl_cli(case):
    import torch
    from pydrobert.torch import command_line
    files = cli_files(case)
    dt = tdtype(case)
    with tempfile.TemporaryDirectory(prefix="c18big-") as tdir:
        d = os.path.join(tdir, "feat")
        os.mkdir(d)
        for fid, shape, data, gid in files:
            torch.save(torch.tensor(data, dtype=dt).view(shape), os.path.join(d, fid + ".pt"))
        out = os.path.join(tdir, "out.pt")
        args = [d, out, "--num-workers", "0"]
        if case["dim"] != -1:
            args += ["--dim", str(case["dim"])]
        if case["bessel"]:
            args.append("--bessel")
        if case["groups"] is not None:
            gp = os.path.join(tdir, "id2gid")
            with open(gp, "w") as fh:
                for fid, _, _, gid in files:
                    fh.write(f"{fid} {gid}\n")
            args += ["--id2gid", gp]
        with contextlib.redirect_stderr(io.StringIO()):
            rc = command_line.compute_mvn_stats_for_torch_feat_data_dir(args)
        if rc:
            return {"rc": rc}
        res = torch.load(out)
    if case["groups"] is None:
        res = {None: res}
    obs = {"rc": 0, "gids": sorted(str(k) for k in res), "groups": {}}
    want_gids = sorted({str(g) for _, _, _, g in files})
    obs["want_gids"] = want_gids
    d2 = case["dim"] % 2
    for gid, st in res.items():
        cols = [[] for _ in range(case["X"])]
        for fid, shape, data, g in files:
            if g == gid:
                for k, v in enumerate(data):
                    cols[(k // shape[1]) if d2 == 0 else (k % shape[1])].append(v)
        n, s, ss, mean, var = stats_oracle(cols, case["bessel"])
        o = {"frames": n, "keys_ok": set(st) == {"mean", "std"}}
        if mean is None:
            o["too_few"] = True
        else:
            M = torch.tensor([float(m) for m in mean], dtype=torch.float64)
            V = torch.tensor([float(v) for v in var], dtype=torch.float64)
            gm, gs = st["mean"].double(), st["std"].double()
            o["len_ok"] = gm.numel() == len(mean) and gs.numel() == len(mean)
            if o["len_ok"]:
                o["mean_bad"] = _dev(gm, M, 1e-12, 1e-12)[1]
                o["var_bad"] = _dev(gs * gs, V, 1e-10, 1e-10)[1]
        obs["groups"][str(gid)] = o
    return obs


# =========================================================================== Lean link (small sizes)
def lean_linked(case):
    """Sizes <= 257 also go to the (interpreted) Lean driver where that takes about a second: returns with a
    gamma of small denominator (a 53-bit gamma costs 10 s at T = 255), deltas of at most 2 rows with
    order, width <= 3 or width 1."""
    if case["what"] == "return":
        return case["T"] <= LEAN_MAX and case["N"] <= 8 and Fraction(case["gamma"]).denominator <= 4
    if case["what"] == "deltas":
        return case["shape"][case["time_dim"] % len(case["shape"])] <= LEAN_MAX \
            and prod(case["shape"]) <= 2 * LEAN_MAX and case["width"] <= 3 \
            and (case["order"] <= 3 or (case["width"] == 1 and case["order"] <= 10))
    return False


def req_big(case):
    """The python oracle must equal the Lean spec on the sizes the driver can run."""
    if case["what"] == "return" and lean_linked(case):
        seqs = return_rewards(case)
        T, N = case["T"], case["N"]
        r = seqs if case["batch_first"] else [[seqs[n][t] for n in range(N)] for t in range(T)]
        return {"op": "c18.return", "case": {"r": r, "cols": T if case["batch_first"] else N,
                                             "gamma": case["gamma"], "batch_first": case["batch_first"]}}
    if case["what"] == "deltas" and lean_linked(case):
        xi = deltas_input(case)
        return {"op": "c18.deltas", "case": {
            "x": {"shape": case["shape"], "data": [int(v) for v in xi.flatten().tolist()]},
            "dim": case["dim"], "time_dim": case["time_dim"], "concatenate": case["concatenate"],
            "order": case["order"], "width": case["width"], "pad_mode": case["pad_mode"],
            "value": frac_str(case["value"])}}
    return None


def cmp_big(case, impl, model):
    """Only reached for the sizes sent to Lean: python oracle == Lean spec (to double rounding), and the
    implementation against the Lean MODEL (the ordinary correspondence)."""
    out = []
    full = impl.get("full")
    if full is None:
        return ["big: the case was sent to Lean but the implementation run kept no full result"]
    if case["what"] == "return":
        spec = model["spec"]
        if not case["batch_first"]:
            spec = [[spec[t][n] for t in range(len(spec))] for n in range(case["N"])]
        for n, (a, b) in enumerate(zip(full["oracle"], spec)):
            for t, (u, v) in enumerate(zip(a, b)):
                if abs(Fraction(u) - Fraction(v)) > Fraction(1, 10 ** 12) * (1 + abs(Fraction(v))):
                    return [f"python return oracle differs from the Lean spec: sequence {n} t={t}: {u} vs {v}"]
    else:
        if model["spec"] == "error":
            return ["python deltas oracle has a value, the Lean spec says error"]
        spec = model["spec"]["data"]
        if len(spec) != len(full["oracle"]):
            return [f"python deltas oracle has {len(full['oracle'])} entries, the Lean spec {len(spec)}"]
        for i, (u, v) in enumerate(zip(full["oracle"], spec)):
            if abs(Fraction(u) - Fraction(v)) > Fraction(1, 10 ** 12) * (1 + abs(Fraction(v))):
                return [f"python deltas oracle differs from the Lean spec at flat index {i}: "
                        f"{float(Fraction(u))} vs {float(Fraction(v))}"]
    return out


# =========================================================================== the property
def pred_big(case, impl, model):
    return {"return": pred_return, "deltas": pred_deltas, "mvn": pred_mvn, "cli": pred_cli}[case["what"]](case, impl)


def pred_return(case, o):
    fails = []
    g = float(Fraction(case["gamma"]))
    head = (f"big return T={case['T']} N={case['N']} gamma={g} batch_first={case['batch_first']} "
            f"({o.get('route')}, {case['dtype']})")
    if not o["shape_ok"]:
        return [(f"{head}: shape {o.get('shape')}", None)]
    f, l = o["first"], o["last"]
    if f["bad"]:
        fails.append((f"{head}: FIRST time step: R_0 = {f['got']} but r_0 + gamma R_1 = {f['want']} "
                      f"(R_t = r_t + gamma R_t+1 violated at t = 0)", None))
    if l["bad"]:
        fails.append((f"{head}: LAST time step: R_(T-1) = {l['got']} but r_(T-1) + gamma * 0 = {l['want']}", None))
    if o["bad"] and not fails:
        s, t, a, b = o["bad_first3"][0]
        fails.append((f"{head}: returns differ from R_t = r_t + gamma R_t+1, R_T = 0 at {o['bad']} entries, "
                      f"first: sequence {s} t={t}: {a:.9g} expected {b:.9g}", None))
    if o["routes_differ"]:
        fails.append((f"{head}: entry routes differ from {o['route']}: {o['routes_differ']}", None))
    if not o["dtype_ok"]:
        fails.append((f"{head}: dtype changed", None))
    if not o["input_kept"]:
        fails.append((f"{head}: the caller's rewards were modified in place", None))
    return fails


def pred_deltas(case, o):
    fails = []
    D = len(case["shape"])
    head = (f"big deltas shape={case['shape']} time_dim={case['time_dim']} dim={case['dim']} "
            f"{'cat' if case['concatenate'] else 'stack'} order={case['order']} width={case['width']} "
            f"{case['pad_mode']} ({case['dtype']})")
    if o["shape"] != o["want_shape"]:
        return [(f"{head}: output shape {o['shape']}, expected {o['want_shape']}", None)]
    T = case["shape"][case["time_dim"] % D]
    for nm in ("first", "last"):
        if o[nm]["bad"]:
            i, a, b = o[nm]["bad_first3"][0]
            fails.append((f"{head}: {nm.upper()} time step (t = {o[nm]['t']} of {T}): {o[nm]['bad']} deltas differ "
                          f"from the recursive regression formula on the padded input, e.g. flat index {i}: "
                          f"{a:.9g} expected {b:.9g}", None))
    if o["bad"] and not fails:
        i, t, u, a, b = o["bad_first3"][0]
        fails.append((f"{head}: {o['bad']} deltas differ from the recursive regression formula on the padded "
                      f"input, first at t={t} order {u} (flat index {i}): {a:.9g} expected {b:.9g}", None))
    if o["routes_differ"]:
        fails.append((f"{head}: FeatureDeltas / keyword calls differ from the positional functional: "
                      f"{o['routes_differ']}", None))
    if not o["dtype_ok"]:
        fails.append((f"{head}: dtype changed", None))
    if not o["input_kept"]:
        fails.append((f"{head}: the caller's tensor was modified in place", None))
    return fails


def pred_mvn(case, o):
    fails = []
    head = (f"big mvn ({case['mode']}={case['size']}) shape={case['shape']} dim={case['dim']} "
            f"calls={o['calls']} bessel={case['bessel']} ({case['dtype']})")
    if not o["count_ok"]:
        fails.append((f"{head}: count {o['count']} is not the number of frames {o['frames']}", None))
    if not o["len_ok"] or not o["buffers_double"]:
        fails.append((f"{head}: sum / sumsq are not double buffers with one entry per coefficient", None))
    if o["sum_bad"] or o["sumsq_bad"]:
        fails.append((f"{head}: sum / sumsq are not the totals over all frames (coefficients "
                      f"{o['sum_bad']} / {o['sumsq_bad']})", None))
    if o["mean_bad"]:
        i, a, b = o["mean_bad"][0]
        fails.append((f"{head}: stored mean is not the pooled mean: coefficient {i}: {a:.12g} expected {b:.12g}", None))
    if o["var_bad"]:
        i, a, b = o["var_bad"][0]
        fails.append((f"{head}: stored std^2 is not the pooled {'Bessel' if case['bessel'] else 'biased'} "
                      f"variance: coefficient {i}: {a:.12g} expected {b:.12g}", None))
    if not o["input_kept"] or not o["xin_kept"]:
        fails.append((f"{head}: the caller's tensor was modified in place", None))
    n = o["frames"]
    pt = 1e-4 if case["dtype"] == "float32" else 1e-9
    for name, fw in o["forward"].items():
        if not fw["shape_ok"]:
            fails.append((f"{head}: forward ({name}) changed dtype or shape", None))
            continue
        hit = False
        for nm in ("first", "last"):
            if fw[nm]["bad"]:
                i, a, b = fw[nm]["bad_first3"][0]
                hit = True
                fails.append((f"{head}: forward ({name}): {nm.upper()} frame ({fw[nm]['frame']}) is not "
                              f"(x - mean[i]) / max(std[i], eps): flat index {i}: {a:.9g} expected {b:.9g}", None))
        if fw["bad"] and not hit:
            i, a, b = fw["bad_first3"][0]
            fails.append((f"{head}: forward ({name}) is not (x - mean[i]) / max(std[i], eps) at {fw['bad']} entries, "
                          f"first flat index {i}: {a:.9g} expected {b:.9g}", None))
        scale = n / (n - 1) if (case["bessel"] and name.startswith("stored")) else 1.0
        for i, live in enumerate(fw["live"]):
            if live and (abs(fw["m1"][i]) > pt or abs(fw["m2"][i] * scale - 1) > pt * 10):
                fails.append((f"{head}: forward ({name}): coefficient {i} has mean {fw['m1'][i]:.3g}, variance "
                              f"{fw['m2'][i] * scale:.9g} over the pooled data", None))
                break
    return fails


def pred_cli(case, o):
    head = (f"big cli ({case['mode']}={case['size']}) frames={case['frames'][:4]}{'...' if len(case['frames']) > 4 else ''} "
            f"dim={case['dim']} groups={case['groups']} bessel={case['bessel']}")
    if o.get("rc"):
        return [(f"{head}: command returned {o['rc']}", None)]
    if o["gids"] != o["want_gids"]:
        return [(f"{head}: groups written {o['gids']}, groups with files {o['want_gids']}", None)]
    fails = []
    for gid, g in o["groups"].items():
        if not g["keys_ok"]:
            fails.append((f"{head}: group {gid}: the entry must hold exactly 'mean' and 'std'", None))
        if g.get("too_few"):
            fails.append((f"{head}: group {gid}: statistics written although too few frames", None))
            continue
        if not g["len_ok"]:
            fails.append((f"{head}: group {gid}: statistics of the wrong length", None))
            continue
        if g["mean_bad"]:
            i, a, b = g["mean_bad"][0]
            fails.append((f"{head}: group {gid}: mean is not the pooled mean of its {g['frames']} frames: "
                          f"coefficient {i}: {a:.12g} expected {b:.12g}", None))
        if g["var_bad"]:
            i, a, b = g["var_bad"][0]
            fails.append((f"{head}: group {gid}: std^2 is not the pooled variance of its {g['frames']} frames: "
                          f"coefficient {i}: {a:.12g} expected {b:.12g}", None))
    return fails


# =========================================================================== evidence / shrinking
def nontrivial_big(case, impl):
    if case["what"] == "return":
        return case["gamma"] != "0"
    return True


def bucket(n):
    for s in SIZES:
        if n <= s:
            return f"<={s}" if n != s else str(s)
    return f">{SIZES[-1]}"


def tags_big(case, impl):
    w = case["what"]
    t = ["kind=big", f"big.what={w}"]
    if w == "return":
        t += [f"big.return.T={bucket(case['T'])}", f"big.return.N={bucket(case['N'])}",
              f"big.return.batch_first={case['batch_first']}", f"big.return.route={case.get('route')}",
              f"big.return.dtype={case['dtype']}",
              f"big.return.gamma={float(Fraction(case['gamma'])):g}"]
        if isinstance(impl, dict) and "stream" in impl:
            t.append(f"big.return.stream={impl['stream']}")
        t.append(f"big.return.lean_linked={lean_linked(case)}")
    elif w == "deltas":
        D = len(case["shape"])
        T = case["shape"][case["time_dim"] % D]
        t += [f"big.deltas.T={bucket(T)}", f"big.deltas.width={bucket(case['width']) if case['width'] > 3 else case['width']}",
              f"big.deltas.order={case['order']}", f"big.deltas.pad={case['pad_mode']}",
              f"big.deltas.rows={bucket(prod(case['shape']) // max(T, 1))}",
              f"big.deltas.pad_vs_T={'pad>=T' if case['order'] * case['width'] >= T else 'pad<T'}",
              f"big.deltas.lean_linked={lean_linked(case)}"]
    elif w == "mvn":
        t += [f"big.mvn.{case['mode']}={case['size']}", f"big.mvn.bessel={case['bessel']}",
              f"big.mvn.dtype={case['dtype']}", f"big.mvn.shuffled={bool(case.get('shuffle'))}"]
    else:
        t += [f"big.cli.{case['mode']}={case['size']}", f"big.cli.groups={case['groups']}",
              f"big.cli.bessel={case['bessel']}", f"big.cli.dim={case['dim']}"]
    return t


def smaller(n, floor=2):
    out = []
    for c in (n // 2, n - n // 4, n - n // 16, n - n // 64, n - 1):
        if floor <= c < n and c not in out:
            out.append(c)
    return out


def shrink_big(case):
    w = case["what"]
    if w == "return":
        for T in smaller(case["T"], 1):
            yield dict(case, T=T)
        if case["N"] > 1:
            yield dict(case, N=1)
        if case.get("layout") != "contig":
            yield dict(case, layout="contig")
    elif w == "deltas":
        D = len(case["shape"])
        td = case["time_dim"] % D
        need = {"reflect": case["order"] * case["width"] + 1, "circular": max(case["order"] * case["width"], 1)
                }.get(case["pad_mode"], 1)
        for a, s in enumerate(case["shape"]):
            for c in smaller(s, need if a == td else 1):
                sh = list(case["shape"])
                sh[a] = c
                yield dict(case, shape=sh)
        if case["order"] > 1:
            yield dict(case, order=case["order"] - 1)
        if case["width"] > 1:
            for c in smaller(case["width"], 1):
                yield dict(case, width=c)
        if case.get("layout") != "contig":
            yield dict(case, layout="contig")
    elif w == "mvn":
        cat = case["cat_axis"]
        d = case["dim"] % len(case["shape"])
        if case["mode"] == "calls":
            per = case["shape"][cat] // case["calls"]
            for c in smaller(case["calls"], 1):
                sh = list(case["shape"])
                sh[cat] = c * per
                yield dict(case, calls=c, shape=sh)
        else:
            for c in smaller(case["shape"][cat], max(2, case["calls"])):
                sh = list(case["shape"])
                sh[cat] = c
                yield dict(case, shape=sh)
            if case["calls"] > 1:
                yield dict(case, calls=1)
        for c in smaller(case["shape"][d], 1):
            sh = list(case["shape"])
            sh[d] = c
            yield dict(case, shape=sh)
        if case.get("shuffle"):
            yield dict(case, shuffle=False)
        if case.get("layout") != "contig":
            yield dict(case, layout="contig")
    else:
        for cand in shrink_cli(case):
            if cli_ok(cand):
                yield cand


def cli_ok(case):
    """Every group keeps at least two frames (else store() raises as documented: another behaviour)."""
    if not case["frames"]:
        return False
    k = case["groups"] or 1
    tot = [0] * k
    for i, f in enumerate(case["frames"]):
        tot[i % k] += f
    return all(t >= 2 for t in tot)


def shrink_cli(case):
    if True:
        fr = case["frames"]
        if len(fr) > 1:
            for j in range(min(len(fr), 4)):
                rest = fr[:j] + fr[j + 1:]
                yield dict(case, frames=rest, groups=case["groups"] if len(rest) > 1 else None)
            yield dict(case, frames=fr[:len(fr) // 2], groups=case["groups"] if len(fr) // 2 > 1 else None)
        j = max(range(len(fr)), key=lambda i: fr[i])
        for c in smaller(fr[j], 2):
            yield dict(case, frames=fr[:j] + [c] + fr[j + 1:])
        if case["groups"] is not None:
            yield dict(case, groups=None)
